"""C16 - event order is a strict weak order on content: real msg_is_before / q_elem_is_before on all triples."""
import json
import os
import subprocess
import time
from lib import vcommon as vc

PID = "C16"


def build(d):
    flags = [f for f in vc.BASE_FLAGS if f != "-O1"] + ["-O2", "-w", "-I" + vc.SRC, "-I" + os.path.join(vc.VERIF, "harness")]
    out = os.path.join(d, "s_cmp")
    p = subprocess.run(["gcc"] + flags + [os.path.join(vc.VERIF, "harness/s_cmp.c"), "-o", out], capture_output=True, text=True)
    if p.returncode:
        raise vc.EngineError(p.stderr[-2000:])
    return out


def run(tier, seed):
    t0 = time.time()
    d = vc.fresh_dir(PID)
    b = build(d)
    reps = [vc.run_seqx(b, [4])]   # both tiers run the alphabet that used to be the thorough one (1 s)
    tot, viol = vc.seqx_collect(PID, "cmp", reps)
    if tot["evaluations"] < 10**6 or tot["distinct_nontrivial"] < 10**5:
        raise vc.EngineError("vacuous: too few triples")
    n = vc.triage(PID, viol)
    cov = dict(tot)
    cov.update({"rule": "all ordered triples over the event alphabet timestamps x anti flag x type{0,1,2} x payload size{0,1,32,33,40} (and a second alphabet on ties with type codes spanning the 32-bit range: 0, 1, 0x60000000, 0x7fffffff, 0x80000000, 0xc0000000, 0xffffffff x size{0,33}) "
                        "x content variants (first/32nd/33rd/last byte), for msg_is_before and q_elem_is_before, plus 7 non-content "
                        "variants of every event (PROCESSED bit, remote id bits, m_seq, dest, next, address, buffer bytes beyond the payload) against every event; "
                        "non-trivial = triple of three distinct events with equal timestamps (decided by the tie-break)",
                "alphabet": reps[0].get("alphabet")})
    vc.write_evidence(PID, tier, "model_checking", cov, ["finite alphabet of payload sizes/contents; gcc -O2 inlining of the real header"],
                      time.time() - t0, n, seed)
    return 1 if n else 0


def replay(path):
    r = json.load(open(path))
    d = vc.fresh_dir(PID + "_replay")
    rep = vc.run_seqx(build(d), r["args"])
    hit = [v for v in rep["violations"] if v["signature"] == r["signature"]]
    print(json.dumps(hit[:1] or "not reproduced", indent=1))
    return 1 if hit else 0
