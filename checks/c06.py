"""C06 - cancellation is exactly-once (oracle M + E/K in h_run; flags word and queue atomics as scheduling points; 2 ranks for remote)."""
import os
import time
from lib import vcommon as vc
from lib import models
from checks import hrun_common as hc

PID = "C06"
T = models.text

# LP A's event sends to LP B and is later undone by a straggler: A's cancel races with B's extract / process / rollback / re-queue
RACE = [
    T(2, [1, 2], [2, 1, 7], P=5, K=50, H=4),
    T(3, [7, 0, 1], [7, 2, 1], P=5, K=50, H=4),       # cascades: B's rollback cancels a message to C
    T(2, [5, 1], [1, 5, 2], P=5, K=50, H=5),           # ties
    T(3, [3, 1, 2], [2, 3, 1], P=5, K=50, H=4),        # zero-delay
    T(3, [4, 2, 1], [4, 2, 1], P=5, K=50, H=5),        # 40-byte payloads: buffers really go back to malloc
]


def run(tier, seed):
    t0 = time.time()
    d = vc.fresh_dir(PID)
    b1 = hc.build(os.path.join(d, "r1"))
    b2 = hc.build(os.path.join(d, "r2"), ranks=2)
    dl = 600 if tier == "quick" else 1500
    sc1, sc2 = [], []
    if tier == "quick":
        sc1.append(hc.scen("f0", RACE[0], T=2, ck=2, p=1, fine="flags,queue", j=4, deadline=dl))
        sc1.append(hc.scen("f1", RACE[1], T=3, ck=1, p=1, fine="flags", j=4, deadline=dl))
        sc1.append(hc.scen("f4", RACE[4], T=2, ck=2, p=1, fine="flags,queue", j=4, deadline=dl))
        sc1.append(hc.scen("c0_p2", RACE[0], T=2, ck=3, p=2, j=8, deadline=dl))
        sc1.append(hc.scen("c2_p2", RACE[2], T=2, ck=1, p=2, j=8, deadline=dl))
        sc2.append(hc.scen("r0", RACE[0], T=1, ck=2, p=1, d=1, j=4, deadline=dl))
        sc2.append(hc.scen("r1", RACE[1], T=1, ck=1, p=1, d=1, j=4, deadline=dl))
        # ties at the timestamp of a remote event that is cancelled after it was processed
        sc2.append(hc.scen("r_ties", T(2, [5, 1], [1, 5, 2], P=0, K=6, M=1, H=7), T=1, ck=3, p=1, d=1, j=4, deadline=dl))
        # longer horizon: several early remote anti-messages pending on one LP at the same time
        sc2.append(hc.scen("r0h6", T(2, [1, 2], [2, 1, 7], P=5, K=5, H=6), T=1, ck=1, p=1, d=1, j=4, deadline=dl))
    else:
        sc2.append(hc.scen("r_ties", T(2, [5, 1], [1, 5, 2], P=0, K=6, M=1, H=7), T=1, ck=3, p=1, d=1, j=4, deadline=dl))
        sc2.append(hc.scen("r0h6", T(2, [1, 2], [2, 1, 7], P=5, K=5, H=6), T=1, ck=1, p=1, d=1, j=4, deadline=dl))
        for i, m in enumerate(RACE):
            sc1.append(hc.scen(f"f{i}", m, T=2, ck=2, p=1, fine="flags,queue", j=4, deadline=dl))
            sc1.append(hc.scen(f"f{i}_T3", m, T=3, ck=1, p=1, fine="flags", j=4, deadline=dl))
            sc1.append(hc.scen(f"c{i}_p2", m, T=2, ck=2, p=2, j=8, deadline=dl))
            sc2.append(hc.scen(f"r{i}", m, T=1, ck=2, p=1, d=1, j=4, deadline=dl))
            sc2.append(hc.scen(f"r{i}_d2", m, T=1, ck=1, p=0, d=2, j=4, deadline=dl))
        sc1.append(hc.scen("f0_p2", T(2, [1, 2], [2, 1, 7], P=5, K=50, H=3), T=2, ck=2, p=2, fine="flags", j=16, deadline=2400))
        sc1.append(hc.scen("c0_p3", RACE[0], T=2, ck=2, p=3, j=16, deadline=2400))
        sc2.append(hc.scen("r2x2", T(4, [1, 2, 7, 1], [2, 1, 7], P=5, K=50, H=4), T=2, ck=2, p=1, d=1, j=16, deadline=2400))
    reps, m, viol = vc.rsched_scenarios(PID, "h_run", b1, sc1, d, workers=4)
    reps2, m2, viol2 = vc.rsched_scenarios(PID, "h_run2", b2, sc2, d, workers=4)
    reps += reps2
    viol += viol2
    rreps, rm, rviol = hc.race_part(PID, d, tier, [("m0", T(2, [1, 2], [2, 1, 7], P=0, K=5, H=6), 2, 2), ("m1", T(3, [7, 0, 1], [7, 2, 1], P=0, K=5, H=6), 3, 1)])
    reps += rreps
    viol += rviol
    m = vc.merge_rsched(reps)
    if not viol or all("deadlock" in v["signature"] for v in viol):
        for k in ("cancelled_while_queued", "cancelled_after_processing", "cancelled_extracted_unprocessed",
                  "anti_extracted_processed", "anti_extracted_unprocessed", "remote_anti_sent", "early_remote_anti", "end_state_compared"):
            if hc.counters_nz(m, k) == 0:
                raise vc.EngineError(f"vacuous: no execution with '{k}'")
    # remote messages and remote anti-messages under EVERY delivery order (complete state spaces), real mpi.c send/receive paths
    rreps_, rm_, rviol_ = hc.procr_part(PID, d, tier)
    viol += rviol_
    n = vc.triage(PID, viol)
    cov = hc.coverage_from(m, reps, "anti_messages",
                           "as C01 with the atomic flag word of every message (lp/process.c) and the queue atomics as scheduling points, on "
                           "models in which an event that has sent messages is undone by a straggler, so that the sender's cancellation "
                           "meets the message in all four positions (still queued; extracted but not yet marked processed; processed; "
                           "rolled back and re-queued) and cascades; 2 ranks for remote cancellation (before arrival, after processing); "
                           "oracle M: per-buffer life cycle from the wrapped allocator / queue / history calls (no double release, no release "
                           "while queued, in a history or in MPI flight, no use of a released buffer, every atomic on a flags word hits an "
                           "allocated buffer) plus E/K (an event annihilated too much or delivered twice changes the committed hashes); "
                           "non-trivial = execution with >= 1 local cancellation")
    cov["rule"] += ". " + hc.RACE_RULE
    hc.add_procr(cov, rm_, rreps_)
    vc.write_evidence(PID, tier, "model_checking", cov,
                      ["releases inside msg_allocator.c itself (msg_allocator_on_gvt) are mirrored from the free_at_gvt calls, not observed",
                       "messages pending beyond the final GVT are legitimately discarded by msg_queue_fini",
                       "<= 3 threads, <= 2 ranks; sequentially consistent interleavings"],
                      time.time() - t0, n, seed)
    return 1 if n else 0


def replay(path):
    d = vc.fresh_dir(PID + "_replay")
    if hc.is_procr_replay(path):
        return vc.rsched_replay(hc.build_proc(d, name="h_procr", remote=True), path)
    if hc.is_race_replay(path):
        return vc.rsched_replay(hc.build(d, race=True), path)
    ranks = 2 if "/r" in path.split("/")[-1][:2] or os.path.basename(path).startswith("r") else 1
    return vc.rsched_replay(hc.build(d, ranks=ranks), path)
