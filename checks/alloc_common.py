"""Build helpers for the allocator-family enumerators (s_alloc, s_ckpt, s_fossil)."""
import os
from lib import vcommon as vc

BUDDY = ["mm/buddy/multi.c", "mm/buddy/buddy.c", "mm/buddy/ckpt.c"]


def build_variant(d, name, harness_src, small=None, san=False, extra_core=(), extra_h=()):
    """small = (total_exp, block_exp) or None for the production constants."""
    defs = []
    # the harness snapshots struct mm_state by hand (bfs mode): tell it which arena lists the struct of this tree has
    if "buddies_by_age" in open(os.path.join(vc.SRC, "mm/buddy/multi.h")).read():
        defs.append("-DVERIF_HAVE_BY_AGE")
    if small:
        defs += [f"-DROOTSIM_VERIF_B_TOTAL_EXP={small[0]}U", f"-DROOTSIM_VERIF_B_BLOCK_EXP={small[1]}U"]
    sub = os.path.join(d, name)
    core = vc.build_core(sub, files=BUDDY + list(extra_core), san=san, hook=False,
                         extra=defs + ["-Dmalloc=vw_malloc", "-Dfree=vw_free", "-w"])
    objs = vc.build_objs(sub, [harness_src] + list(extra_h), san=san, extra=defs + ["-w", "-I" + os.path.join(vc.VERIF, "harness")])
    return vc.link(os.path.join(sub, name), objs + core, san=san)
