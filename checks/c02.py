"""C02 - distributed (multi-rank) results equal the sequential execution: h_run with 2-3 symbol-renamed copies of the core
in one process and the fake MPI exploring delivery delays, inter-sender reordering and collective completion delays."""
import os
import time
from lib import vcommon as vc
from lib import models
from checks import hrun_common as hc

PID = "C02"
T = models.text

MODELS = [
    T(2, [1, 2], [2, 1, 7], P=5, K=5, H=6),
    T(3, [7, 0, 1], [7, 2, 1], P=5, K=4, H=5),
    T(2, [5, 1], [1, 5, 2], P=0, K=6, M=1, H=7),
    T(4, [1, 2, 7, 1], [2, 1, 7], P=5, K=5, H=4),
    T(3, [3, 1, 2], [2, 3, 1], P=0, K=4, H=5),
    T(4, [4, 2, 1, 2], [4, 2, 1], P=5, K=4, M=2, H=6),
    T(2, [2, 1], [1, 2, 2], P=0, K=4, G=2, H=6),
    T(3, [2, 1, 5], [5, 1, 2], P=5, K=5, M=1, H=6),
]


def run(tier, seed):
    t0 = time.time()
    d = vc.fresh_dir(PID)
    b2 = hc.build(os.path.join(d, "r2"), ranks=2)
    sc2, sc3 = [], []
    dl = 600 if tier == "quick" else 1500
    if tier == "quick":
        for i, m in enumerate(MODELS[:4]):
            sc2.append(hc.scen(f"r2x1_m{i}", m, T=1, ck=1 + i % 3, p=1, d=1, j=4, deadline=dl))
        sc2.append(hc.scen("r2x2_m3", MODELS[3], T=2, ck=2, p=1, d=0, j=4, deadline=dl))
        sc2.append(hc.scen("r2x1_m4_d2", MODELS[4], T=1, ck=2, p=0, d=2, j=4, deadline=dl))
    else:
        for i, m in enumerate(MODELS):
            sc2.append(hc.scen(f"r2x1_m{i}", m, T=1, ck=1 + i % 3, p=1, d=1, j=4, deadline=dl))
            sc2.append(hc.scen(f"r2x1_m{i}_d2", m, T=1, ck=2, p=0, d=2, j=4, deadline=dl))
            sc2.append(hc.scen(f"r2x1_m{i}_p2", m, T=1, ck=2, p=2, d=0, j=4, deadline=dl))
            sc3.append(hc.scen(f"r3x1_m{i}", m if len(m) else m, T=1, ck=2, p=1, d=1, j=4, deadline=dl))
        for i in (3, 5):
            sc2.append(hc.scen(f"r2x2_m{i}", MODELS[i], T=2, ck=2, p=1, d=1, j=16, deadline=2400))
        sc2.append(hc.scen("r2x1_m0_p2d2", MODELS[0], T=1, ck=2, p=2, d=2, j=16, deadline=2400))
        for i, m in enumerate(models.enumerate_models(limit=400, Ls=(2, 3))[::2]):
            sc2.append(hc.scen(f"e{i}", m, T=1, ck=2, p=0, d=1, j=1, deadline=dl))
    reps, m, viol = vc.rsched_scenarios(PID, "h_run2", b2, sc2, d, workers=4)
    if sc3:
        b3 = hc.build(os.path.join(d, "r3"), ranks=3)
        sc3 = [s for s in sc3 if int(s[1][[a.startswith("m=") for a in s[1]].index(True)].split("_")[0][3:]) >= 3]
        reps3, m3, viol3 = vc.rsched_scenarios(PID, "h_run3", b3, sc3, d, workers=4)
        reps += reps3
        viol += viol3
        m = vc.merge_rsched(reps)
    if not viol or all("deadlock" in v["signature"] for v in viol):
        for k in ("remote_events_sent", "remote_anti_sent", "remote_anti_extracted", "early_remote_anti", "rollbacks", "mpi_invisible",
                  "mpi_reordered", "mpi_collective_delayed", "end_state_compared"):
            if hc.counters_nz(m, k) == 0:
                raise vc.EngineError(f"vacuous: no execution with '{k}'")
    # remote messages and remote anti-messages under EVERY delivery order (complete state spaces), real mpi.c send/receive paths
    rreps_, rm_, rviol_ = hc.procr_part(PID, d, tier)
    viol += rviol_
    n = vc.triage(PID, viol)
    cov = hc.coverage_from(m, reps, "remote_anti_sent",
                           "as C01 with 2 (thorough: also 3) ranks: symbol-renamed copies of the whole core in one process, the real "
                           "distributed/mpi.c against an in-process MPI whose non-default answers are counted deviations (message not yet "
                           "visible to MPI_Improbe; head of another sender thread's channel matched first, so a remote anti-message can "
                           "overtake the event it cancels; non-blocking collective not yet complete); all executions with <= p non-default "
                           "scheduling decisions and <= d deviations; LPs spread over the ranks by the runtime's own partitioning; oracles "
                           "E, K, G (agreement across ranks, nothing below a reported GVT queued or in MPI flight), M, R, T; non-trivial = "
                           "execution with >= 1 remote anti-message")
    hc.add_procr(cov, rm_, rreps_)
    vc.write_evidence(PID, tier, "model_checking", cov,
                      ["the in-process MPI is my reading of MPI-3.1 (non-overtaking per sender thread and destination, eager copies, "
                       "collectives complete any time after all ranks posted); real OpenMPI progress behaviour is not explored",
                       "<= 3 ranks, <= 2 threads per rank, call-granularity interleavings"],
                      time.time() - t0, n, seed)
    return 1 if n else 0


def replay(path):
    d = vc.fresh_dir(PID + "_replay")
    if hc.is_procr_replay(path):
        return vc.rsched_replay(hc.build_proc(d, name="h_procr", remote=True), path)
    ranks = 3 if os.path.basename(path).startswith("r3") else 2
    return vc.rsched_replay(hc.build(d, ranks=ranks), path)
