"""C18 - numerical library contracts for every generator state (s_rand, plain and UBSan builds)."""
import json
import os
import subprocess
import time
from lib import vcommon as vc

PID = "C18"
SRCS = ["lib/random/random.c", "lib/random/xxtea.c"]


def build(d, ub):
    os.makedirs(d, exist_ok=True)
    flags = list(vc.BASE_FLAGS) + ["-w", "-I" + vc.SRC, "-I" + os.path.join(vc.VERIF, "harness")]
    if ub:
        flags += ["-fsanitize=undefined,float-divide-by-zero", "-fno-sanitize-recover=undefined"]
    out = os.path.join(d, "s_rand_ub" if ub else "s_rand")
    p = subprocess.run(["gcc"] + flags + [os.path.join(vc.VERIF, "harness/s_rand.c")] + [os.path.join(vc.SRC, s) for s in SRCS] +
                       ["-o", out, "-lm"], capture_output=True, text=True)
    if p.returncode:
        raise vc.EngineError(p.stderr[-2000:])
    return out


def run(tier, seed):
    t0 = time.time()
    d = vc.fresh_dir(PID)
    lvl = 1   # the deeper level costs seconds: both tiers run it (thorough = quick for this check)
    bins = [build(d, False), build(d, True)]
    reps = vc.run_parallel([(lambda b=b: vc.run_seqx(b, [lvl], timeout=3000)) for b in bins])
    tot, viol = vc.seqx_collect(PID, "rand", reps)
    if not viol and tot["evaluations"] < 10**6:
        raise vc.EngineError("vacuous: too few calls")
    n = vc.triage(PID, viol)
    cov = dict(tot)
    cov["traces_validated_against_impl"] = tot["evaluations"]
    cov["rule"] = ("generator states crafted by inverting the xoshiro256** output function so that the next <=3 raw outputs are any tuple of "
                   "the boundary alphabet B = {0,1,2^64-1} u {2^k, 2^k+-1, all-ones below 2^(k+1)} u {0.5+-ulp, 1-ulp} u 8 mixed values; "
                   "Random/Poisson/Expent: B; RandomRange: B x 66 (min,max) pairs; RandomRangeNonUniform, Normal, Zipf: B^2 x argument "
                   "grids; Gamma(0..7,100): B^3; every call also byte-compares another LP's generator; each run executed twice: plain "
                   "and under UBSan (float-divide-by-zero included); non-trivial = a draw tuple containing 0, 1 or 2^64-1")
    cov["alphabet"] = reps[0].get("alphabet")
    vc.write_evidence(PID, tier, "model_checking", cov,
                      ["argument domain as in DESIGN.md 4/C18: 0 <= min <= max, max-min+1 representable as int, skew >= 1, limit >= 1",
                       "only the first three raw outputs of a call are controlled; rejection loops continue on the state that follows"],
                      time.time() - t0, n, seed)
    return 1 if n else 0


def replay(path):
    r = json.load(open(path))
    d = vc.fresh_dir(PID + "_replay")
    rep = vc.run_seqx(build(d, "runtime error" in r["signature"]), r["args"])
    hit = [v for v in rep["violations"] if v["signature"] == r["signature"]]
    print(json.dumps(hit[:1] or "not reproduced", indent=1))
    return 1 if hit else 0
