"""C19 - topology queries consistent and rollback-safe (s_topo)."""
import json
import os
import subprocess
import time
from lib import vcommon as vc

PID = "C19"
SRCS = ["lib/topology/topology.c", "lib/random/random.c", "lib/random/xxtea.c"]


def build(d, san=False):
    os.makedirs(d, exist_ok=True)
    flags = list(vc.BASE_FLAGS) + ["-w", "-I" + vc.SRC, "-I" + os.path.join(vc.VERIF, "harness")]
    if san:
        flags += vc.SAN_FLAGS
    out = os.path.join(d, "s_topo_san" if san else "s_topo")
    p = subprocess.run(["gcc"] + flags + [os.path.join(vc.VERIF, "harness/s_topo.c")] + [os.path.join(vc.SRC, s) for s in SRCS] +
                       ["-o", out, "-lm", "-lpthread"], capture_output=True, text=True)
    if p.returncode:
        raise vc.EngineError(p.stderr[-2000:])
    return out


def build_htopo(d):
    sub = os.path.join(d, "htopo")
    core = vc.build_core(sub, files=SRCS, hook=False, extra=["-w"])
    objs = vc.build_objs(sub, ["harness/h_topo.c", "engine/rsched.c"], extra=["-w"])
    return vc.link(os.path.join(sub, "h_topo"), objs + core)


def run(tier, seed):
    t0 = time.time()
    d = vc.fresh_dir(PID)
    lvl = 1   # the deeper level costs seconds: both tiers run it (thorough = quick for this check)
    reps = [vc.run_seqx(build(d), [lvl], timeout=3000)]
    tot, viol = vc.seqx_collect(PID, "topo", reps)
    # concurrent use: every interleaving of the calls of two LPs on two scheduler threads
    ht = build_htopo(d)
    p = "8"
    rreps, rm, rviol = vc.rsched_scenarios(PID, "h_topo", ht, [(f"conc_g{g}", ["-p", p, "-j", "4", "--deadline", "600", f"g={g}"])
                                                             for g in (1, 2, 3)], d, workers=3)
    viol += rviol
    cover = reps[0].get("shuffle_index_tuples_covered", 0)
    if not viol and cover < 715:
        raise vc.EngineError(f"vacuous: only {cover} of 720 shuffle index tuples drawn by the generator states used")
    from checks import hrun_common as hc
    lrep, ltot, lviol = hc.libstate_part(PID, d)
    viol += lviol
    n = vc.triage(PID, viol)
    cov = dict(tot)
    cov["states"] = tot["evaluations"]
    cov["evaluations"] = tot["transitions"] + ltot["evaluations"]  # cases = queries made (a (topology, source) pair is a state)
    cov["traces_validated_against_impl"] = tot["transitions"]
    cov["concurrent_interleavings"] = {"executions": rm["executions"], "exhaustive": rm["exhaustive"], "bound_p": int(p),
                                       "scenarios": [r["id"] for r in rreps]}
    cov["rule"] = ("all 8 geometries x sizes (grids h,w in 1..%d; others 1..%d regions; every link set on <=3 regions) x every source x every "
                   "fixed direction and DIRECTION_RANDOM on %d generator states (real seeding of many (seed, LP) pairs + crafted boundary "
                   "draws; %d of the 720 index tuples of the 6-direction shuffle drawn); every 4th random query is followed by another "
                   "LP's query and repeated after resetting the caller's generator (rollback); every interleaving (call granularity, <= 4 "
                   "preemptions, thorough 8 = all) of 2 x 4 DIRECTION_RANDOM calls of two LPs on two scheduler threads on a 3x3 hexagon / "
                   "square / torus compared with each LP's answers alone; free-running two-thread comparison; "
                   "states = (topology, source) pairs, transitions = random queries; non-trivial = query repeated after rollback"
                   % (reps[0].get("max_grid", 0), reps[0].get("max_regions", 0), reps[0].get("generator_states", 0), cover))
    cov["library_hidden_state"] = {"evaluations": ltot["evaluations"], "hidden_state_accesses": lrep.get("hidden_state_accesses")}
    cov["rule"] += "; " + hc.LIBSTATE_RULE
    vc.write_evidence(PID, tier, "model_checking", cov,
                      ["neighbour existence for DIRECTION_RANDOM is defined per the property text (valid fixed direction / other region / link)",
                       "the two-thread pass is free-running (a sample, not an enumeration) and only supplements the sequential memo oracle"],
                      time.time() - t0, n, seed)
    return 1 if n else 0


def replay(path):
    r = json.load(open(path))
    d = vc.fresh_dir(PID + "_replay")
    if r.get("harness") == "s_libstate":
        from checks import hrun_common as hc
        rep = vc.run_seqx(hc.build_libstate(d), r["args"])
    else:
        rep = vc.run_seqx(build(d), r["args"])
    hit = [v for v in rep["violations"] if v["signature"] == r["signature"]]
    print(json.dumps(hit[:1] or "not reproduced", indent=1))
    return 1 if hit else 0
