"""C07 - no premature termination (oracle T in h_run) over predicate kinds, layouts and interleavings."""
import time
from lib import vcommon as vc
from lib import models
from checks import hrun_common as hc

PID = "C07"
T = models.text


def model_set():
    ms = []
    # P0 count>=K then stop changing; P5 count>=K keeps changing; P3 non-monotone (count==K): may flip back after a rollback;
    # P1 true at init; P2 first true at an event with timestamp 0; P4 never (run must last until exhaustion)
    base = [([1, 2], [2, 1, 7]), ([7, 0, 1], [7, 2, 1]), ([5, 1], [1, 5, 2]), ([3, 1, 2], [2, 3, 1])]
    for (I, R) in base:
        L = len(I)
        for (P, K) in ((0, 3), (5, 4), (3, 3), (1, 0), (4, 0)):
            ms.append(T(L, I, R, P=P, K=K, H=7))
    # an LP that can never reach its threshold while the others do, with events remaining: the run may only end by exhaustion
    ms.append(T(3, [1, 1, 0], [1, 1, 1], P=0, K=3, H=9))
    ms.append(T(2, [1, 0], [1, 1, 1], P=5, K=2, H=12))
    # predicate first true at timestamp 0: LP 0 processes a chain of timestamp-0 events, LP 1 never sees timestamp 0
    ms.append(T(2, [6, 1], [1, 1, 6], P=2, K=0, H=10, C=2))
    ms.append(T(3, [6, 1, 3], [1, 2, 6], P=2, K=0, H=8, C=1))
    # exactly two timestamp-0 events on one LP while the other LP (never at timestamp 0) keeps running for a long time
    ms.append(T(2, [8, 0], [0, 1, 1], P=2, K=0, H=1000, C=1))
    ms.append(T(3, [8, 0, 1], [0, 1, 1], P=2, K=0, H=300, C=1))
    return ms


def scenarios(tier):
    sc = []
    dl = 600 if tier == "quick" else 1500
    ms = model_set()
    for i, m in enumerate(ms):
        sc.append(hc.scen(f"m{i}_T1", m, T=1, ck=2, p=0, j=1, deadline=dl))
        sc.append(hc.scen(f"m{i}_T2", m, T=2, ck=2, p=1, j=2, deadline=dl))
        if tier != "quick" or i % 3 == 0:
            sc.append(hc.scen(f"m{i}_T3", m, T=3, ck=1, p=1, j=2, deadline=dl))
    if tier != "quick":
        for i in (0, 2, 7, 12, 22, 23):
            sc.append(hc.scen(f"m{i}_p2", ms[i], T=2, ck=2, p=2, j=8, deadline=dl))
        for i, m in enumerate(models.enumerate_models(limit=900, preds=((3, 2), (0, 2), (1, 0)))[::3]):
            sc.append(hc.scen(f"e{i}", m, T=2, ck=2, p=1, j=1, deadline=dl))
    return sc


def build_sterm(d):
    import os
    import subprocess
    out = os.path.join(d, "s_term")
    flags = list(vc.BASE_FLAGS) + ["-w", "-I" + vc.SRC, "-I" + os.path.join(vc.VERIF, "harness")]
    p = subprocess.run(["gcc"] + flags + [os.path.join(vc.VERIF, "harness/s_term.c"), "-o", out], capture_output=True, text=True)
    if p.returncode:
        raise vc.EngineError(p.stderr[-2000:])
    return out


def run(tier, seed):
    t0 = time.time()
    d = vc.fresh_dir(PID)
    binary = hc.build(d)
    reps, m, viol = vc.rsched_scenarios(PID, "h_run", binary, scenarios(tier), d, workers=8)
    # module level: every sequence of the termination module's entry points up to a depth
    srep = vc.run_seqx(build_sterm(d), [5 if tier == "quick" else 6], timeout=3000, env_extra={"SX_DEADLINE": "300" if tier == "quick" else "2400"})
    stot, sviol = vc.seqx_collect(PID, "term", [srep])
    viol += sviol
    if not viol or all("C07" not in v["signature"] for v in viol):
        for k in ("ended_by_predicate", "ended_by_time", "rollbacks", "termination_checked"):
            if hc.counters_nz(m, k) == 0:
                raise vc.EngineError(f"vacuous: no execution with '{k}'")
    n = vc.triage(PID, viol)
    cov = hc.coverage_from(m, reps, "ended_by_predicate",
                           "as C01, over predicate kinds {count>=K and stop, count>=K and continue, count==K (non-monotone: flips back when "
                           "a rollback undoes events), true at initialisation, first true at an event with timestamp 0, never} x models x "
                           "LP-to-thread layouts (1, 2, 3 threads) x schedules; oracle T: when RootsimRun returns without RootsimStop, either "
                           "the largest reported GVT reached the termination time (infinity on exhaustion) or every LP's predicate is true at "
                           "initialisation or after some event of the reference execution with timestamp below that GVT; non-trivial = run "
                           "that ended because the predicates held")
    cov["termination_module_sequences"] = {"evaluations": stot["evaluations"], "with_rollback": stot["distinct_nontrivial"],
                                           "depth": srep.get("depth"), "exhaustive": srep.get("exhaustive"), "samples": stot["samples"][:3]}
    cov["evaluations"] += stot["evaluations"]
    cov["rule"] += ("; plus s_term: every sequence of <= %s calls of termination_on_msg_process / termination_on_lp_rollback / "
                    "termination_on_gvt of the real gvt/termination.c for 2 LPs (timestamps 0..3 incl. ties and rollbacks at exactly the "
                    "termination time with 0..2 tied events surviving, every predicate outcome, predicates true at init) against a shadow of "
                    "the valid event history" % srep.get("depth"))
    vc.write_evidence(PID, tier, "model_checking", cov,
                      ["finite models: a correct runtime returns at the latest on exhaustion (GVT = infinity >= termination time)",
                       "call-granularity interleavings; <= 3 threads; one rank"],
                      time.time() - t0, n, seed)
    return 1 if n else 0


def replay(path):
    d = vc.fresh_dir(PID + "_replay")
    if path.endswith(".json"):
        import json
        r = json.load(open(path))
        rep = vc.run_seqx(build_sterm(d), r["args"])
        hit = [v for v in rep["violations"] if v["signature"] == r["signature"]]
        print(json.dumps(hit[:1] or "not reproduced", indent=1))
        return 1 if hit else 0
    return vc.rsched_replay(hc.build(d), path)
