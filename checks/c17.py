"""C17 - thread barrier: real core/sync.c under rsched (h_barrier)."""
import os
import time
from lib import vcommon as vc

PID = "C17"


def build(d):
    core = vc.build_core(d, files=["core/sync.c"])
    objs = vc.build_objs(d, ["harness/h_barrier.c", "engine/rsched.c"])
    return vc.link(os.path.join(d, "h_barrier"), objs + core)


def scenarios(tier):
    if tier == "quick":
        bounded = [("T2K9p3", ["-p", "3", "T=2", "K=9"]), ("T3K4p2", ["-p", "2", "T=3", "K=4"])]
        cyc = [2, 3]
    else:
        bounded = [("T2K9p4", ["-p", "4", "T=2", "K=9"]), ("T3K9p3", ["-p", "3", "T=3", "K=9"]),
                   ("T4K5p2", ["-p", "2", "T=4", "K=5"])]
        cyc = [2, 3, 4]
    bounded.append(("T1K9", ["-p", "0", "T=1", "K=9"]))
    # a second team of another size after the first one completed a multiple of 4 uses (two runs in one process)
    bounded += [("T2K4_then_T3K4", ["-p", "1", "T=2", "K=4", "T2=3", "K2=4"]), ("T3K4_then_T2K5", ["-p", "1", "T=3", "K=4", "T2=2", "K2=5"])]  # one worker: every use has exactly one leader, whatever the phase
    bounded.append(("pp_T2K5", ["-p", "2", "--post-points", "T=2", "K=5"]))  # preemption also right after an atomic that changed something
    sc = [(n, a + ["-j", "8", "--deadline", "900"]) for n, a in bounded]
    sc += [(f"cyclicT{t}", ["--stateful", "-j", "8", f"T={t}", "cyclic=1", "--deadline", "1500"]) for t in cyc]
    return sc


def run(tier, seed):
    t0 = time.time()
    d = vc.fresh_dir(PID)
    binary = build(d)
    sc = scenarios(tier)
    reps = vc.run_parallel([(lambda n=n, a=a: vc.run_rsched(binary, a + ["--id", n, "--replay-dir", d],
                                                             os.path.join(d, n + ".json"))) for n, a in sc], workers=4)
    m = vc.merge_rsched(reps)
    viol = []
    for v in m["violations"]:
        rp = vc.save_replay(PID, os.path.basename(v["replay"]), v["replay"])
        viol.append({"signature": f"h_barrier[{v['scenario']}] {v['signature']}", "replay": rp})
    # vacuity guards
    if not viol:
        if m["counters"].get("fast_reentry", [0, 0])[1] == 0:
            raise vc.EngineError("vacuous: no execution with a fast thread re-entering the next use")
        if m["counters"].get("leader_returned_last", [0, 0])[1] == 0 or m["counters"].get("leader_returned_first", [0, 0])[1] == 0:
            raise vc.EngineError("vacuous: leader position never varied")
        for r in reps:
            if r["mode"] == "stateful" and not r["exhaustive"] and not r["deadline_hit"]:
                raise vc.EngineError("stateful search neither closed nor timed out: " + r["id"])
    n = vc.triage(PID, viol)
    closed = [r["id"] for r in reps if r["mode"] == "stateful" and r["exhaustive"]]
    cov = {
        "states": sum(r["distinct_states"] for r in reps if r["mode"] == "stateful") + m["new_choice_points"],
        "transitions": m["steps"],
        "traces_validated_against_impl": m["executions"],
        "evaluations": m["executions"],
        "distinct_nontrivial": m["counters"].get("fast_reentry", [0, 0])[1],
        "rule": "every execution is a run of the real sync_thread_barrier(); non-trivial = a fast thread entered use k+1 "
                "while another was still inside use k; states = distinct complete-state digests (cyclic stateful runs) + "
                "distinct choice-tree nodes (bounded stateless runs); transitions = scheduling steps executed",
        "samples": m["samples"],
        "exhaustive": m["exhaustive"],
        "deadline_hit": m["deadline_hit"],
        "state_graph_closed_for": closed,
        "scenarios": [{"id": r["id"], "args": r["args"], "mode": r["mode"], "bound_p": r["bound_p"],
                       "level_completed": r["level_completed"], "executions": r["executions"], "states": r["distinct_states"],
                       "transitions": r["distinct_transitions"], "exhaustive": r["exhaustive"]} for r in reps],
        "counters": m["counters"],
        "distinct_outcomes": m["distinct_outcomes"],
    }
    vc.write_evidence(PID, tier, "model_checking", cov,
                      ["sequentially consistent interleavings of the hooked atomics only (DESIGN.md section 6)",
                       "stateful closure relies on the harness digest being complete (barrier words + per-thread use index, "
                       "site and last RMW result); the bounded stateless runs do not"], time.time() - t0, n, seed)
    return 1 if n else 0


def replay(path):
    d = vc.fresh_dir(PID + "_replay")
    binary = build(d)
    args = []
    for line in open(path):
        if line.startswith("args "):
            args = line.split()[1:]
        if line.startswith("flags ") and "stateful=1" in line:
            args.append("--stateful")
    import subprocess
    return subprocess.run([binary, "--replay", path] + args).returncode
