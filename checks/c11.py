"""C11 - memory safety and absence of undefined behaviour: the enumerations of the other checks re-run on AddressSanitizer +
UndefinedBehaviorSanitizer builds of the core; any sanitizer report is the violation (the enumeration is the deciding method)."""
import os
import time
from lib import vcommon as vc
from lib import models
from checks import hrun_common as hc
from checks import alloc_common as ac
from checks import c10, c18, c19

PID = "C11"
T = models.text


def run(tier, seed):
    t0 = time.time()
    d = vc.fresh_dir(PID)
    dl = 600 if tier == "quick" else 1500
    # ---- whole runtime, serial/parallel/distributed ----
    b1 = hc.build(os.path.join(d, "r1"), san=True)
    b2 = hc.build(os.path.join(d, "r2"), san=True, ranks=2)
    ms = [T(2, [1, 2], [2, 1, 7], P=0, K=5, H=6), T(3, [4, 2, 1], [4, 2, 1], P=0, K=4, M=2, H=7),   # 40-byte payloads really freed
          T(3, [7, 0, 1], [7, 2, 1], P=5, K=5, M=1, H=6), T(2, [6, 2], [2, 6, 1], P=0, K=6, H=4, C=3),
          T(2, [2, 1], [1, 2, 2], P=0, K=4, G=5, H=6)]
    sc1, sc2 = [], []
    for i, m in enumerate(ms):
        sc1.append(hc.scen(f"m{i}", m, T=2 + i % 2, ck=i % 4, p=1, j=4, deadline=dl))
    sc1.append(hc.scen("stop", T(2, [2, 1], [2, 1, 2], P=4, K=0, H=12, S=4), T=2, ck=2, p=1, j=4, deadline=dl))
    sc1.append(hc.scen("time", ms[1], T=2, ck=2, tt=3, p=1, j=4, deadline=dl))
    sc2.append(hc.scen("r2_m0", ms[0], T=1, ck=2, p=1, d=(1 if tier != "quick" else 0), j=4, deadline=dl))
    sc2.append(hc.scen("r2_m1", ms[1], T=1, ck=1, p=(1 if tier != "quick" else 0), d=1, j=4, deadline=dl))
    # 2 ranks ended by time / by RootsimStop: remote events and anti-messages of different sizes still in MPI flight are drained at shutdown
    sc2.append(hc.scen("r2_time", ms[2], T=1, ck=2, tt=3, p=1, d=1, j=4, deadline=dl))
    sc2.append(hc.scen("r2_stop", T(3, [7, 0, 1], [7, 2, 1], P=4, K=0, M=1, H=8, S=5), T=1, ck=1, p=1, d=1, j=4, deadline=dl))
    if tier != "quick":
        sc1 += [hc.scen(f"m{i}_p2", m, T=2, ck=2, p=2, j=8, deadline=dl) for i, m in enumerate(ms[:3])]
        sc2.append(hc.scen("r2x2", T(4, [4, 2, 1, 2], [4, 2, 1], P=5, K=4, M=2, H=5), T=2, ck=2, p=1, d=0, j=8, deadline=dl))
    reps, m, viol = vc.rsched_scenarios(PID, "h_run(asan+ubsan)", b1, sc1, d, workers=4)
    reps2, m2, viol2 = vc.rsched_scenarios(PID, "h_run2(asan+ubsan)", b2, sc2, d, workers=4)
    reps += reps2
    viol += viol2
    if tier != "quick":
        # the non-NDEBUG variant of the core (other struct lp_msg layout, the runtime's own API-contract assertions active:
        # "Scheduling a message in the past!", SetState outside LP_INIT): also confirms that the models respect the contract
        saved = list(vc.BASE_FLAGS)
        vc.BASE_FLAGS[:] = [f for f in saved if f != "-DNDEBUG"]
        try:
            bd = hc.build(os.path.join(d, "dbg"), san=True)
            scd = [hc.scen(f"dbg_m{i}", mm, T=2, ck=2, p=1, j=4, deadline=dl) for i, mm in enumerate(ms)]
            repsd, md, viold = vc.rsched_scenarios(PID, "h_run(debug,asan+ubsan)", bd, scd, d, workers=4)
        finally:
            vc.BASE_FLAGS[:] = saved
        reps += repsd
        viol += viold
    # the step function under every delivery order and every legal GVT announcement, sanitized: 40-byte payloads (really freed
    # buffers) included (scenario e_mem3)
    preps, pm, pviol = hc.proc_part(PID, d, tier, san=True, part="small")
    viol += pviol
    m = vc.merge_rsched(reps)
    # ---- sequential enumerators on sanitized builds ----
    jobs = []
    sa_small = ac.build_variant(d, "sa_small", "harness/s_alloc.c", small=(6, 3), san=True)
    sa_prod = ac.build_variant(d, "sa_prod", "harness/s_alloc.c", san=True)
    sc_small = ac.build_variant(d, "sc_small", "harness/s_ckpt.c", small=(6, 3), san=True)
    sc_prod = ac.build_variant(d, "sc_prod", "harness/s_ckpt.c", san=True)
    sf_small = ac.build_variant(d, "sf_small", "harness/s_fossil.c", small=(6, 3), san=True, extra_core=["gvt/fossil.c"])
    jobs += [(sa_small, ["bfs", 1, 0]), (sa_small, ["dfs", 5, 2, 0, 1, 2, 3]), (sa_prod, ["dfs", 3, 0, 0, 1])]
    jobs += [(sc_small, [4, s, 4, s % 6, 3, 3]) for s in range(4)] + [(sc_prod, [3, 0, 1, 0, 3, 2])]
    jobs += [(sf_small, [3, 0, 1, 4])]
    ser = c10.build(os.path.join(d, "ser"), san=True)
    lst = os.path.join(d, "models.txt")
    ml = models.FEATURE_MODELS + models.enumerate_models(limit=300 if tier == "quick" else 3000)
    open(lst, "w").write("\n".join(ml) + "\n")
    jobs += [(ser, [lst, s, 8]) for s in range(8)]
    jobs += [(c19.build(os.path.join(d, "topo"), san=True), [0]), (c18.build(os.path.join(d, "rand"), True), [0 if tier == "quick" else 1])]
    env = {"SX_DEADLINE": "240" if tier == "quick" else "2400"}
    sreps = vc.run_parallel([(lambda x=x, a=a: vc.run_seqx(x, a, timeout=3600, env_extra=env)) for x, a in jobs], workers=8)
    tot, sviol = vc.seqx_collect(PID, "seqx(asan+ubsan)", sreps)
    viol += sviol
    n = vc.triage(PID, viol)
    cov = hc.coverage_from(m, reps, "rollbacks",
                           "the enumerations of C01/C02 (whole runtime, parallel and 2-rank, incl. 40-byte payloads whose buffers are really "
                           "freed, dynamic memory across arenas, runs ended by time and by RootsimStop), C10 (serial runtime on the model "
                           "grammar), C12/C05/C13 (allocator, checkpoint, fossil), C18 (numerical library on boundary generator states) and "
                           "C19 (topology) executed on builds of the core with -fsanitize=address,undefined -fno-sanitize-recover; a report "
                           "of either sanitizer ends the execution and is the violation; non-trivial = whole-runtime execution with a rollback")
    hc.add_proc(cov, pm, preps)
    cov["sequential_enumerations"] = {"evaluations": tot["evaluations"], "runs": len(sreps)}
    cov["evaluations"] += tot["evaluations"]
    vc.write_evidence(PID, tier, "model_checking", cov,
                      ["UB that ASan/UBSan do not instrument (strict aliasing, data races, uninitialised reads) is not covered",
                       "pooled message buffers are recycled by the core without returning to malloc: their life cycle is checked by the "
                       "monitor of C06, not by ASan"],
                      time.time() - t0, n, seed)
    return 1 if n else 0


def replay(path):
    import json
    d = vc.fresh_dir(PID + "_replay")
    if path.endswith(".json"):
        print(open(path).read()[:2000])
        return 1
    if hc.is_proc_replay(path):
        return vc.rsched_replay(hc.build_proc(d, san=True), path)
    ranks = 2 if os.path.basename(path).startswith("r2") else 1
    return vc.rsched_replay(hc.build(d, san=True, ranks=ranks), path)
