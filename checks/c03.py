"""C03 - committed history is exactly a prefix of the sequential history (oracle K in h_run), incl. runs ended by time / RootsimStop."""
import time
from lib import vcommon as vc
from lib import models
from checks import hrun_common as hc

PID = "C03"
T = models.text

# long, trickling models: many GVT rounds and fossil collections while events are still being produced
TRICKLE = [
    T(2, [2, 0], [2, 2, 2], P=5, K=100, H=40),
    T(3, [2, 0, 0], [2, 2, 2], P=5, K=100, M=1, H=30),
    T(2, [2, 1], [2, 1, 2], P=5, K=100, H=24),
    T(3, [1, 2, 1], [2, 1, 7], P=5, K=100, H=14),
    T(2, [5, 1], [1, 5, 2], P=5, K=100, M=1, H=16),
    T(3, [3, 1, 2], [2, 3, 1], P=5, K=100, H=12),
    T(2, [6, 2], [2, 6, 1], P=5, K=100, H=10, C=3),
    T(3, [4, 2, 1], [4, 2, 1], P=5, K=100, M=2, H=14),
]


def scenarios(tier):
    sc = []
    p = 1
    dl = 600 if tier == "quick" else 1500
    for i, m in enumerate(TRICKLE):
        sc.append(hc.scen(f"t{i}_run", m, T=2 if i % 2 == 0 else 3, ck=1 + i % 3, p=p, deadline=dl))
        if tier != "quick" or i < 4:
            sc.append(hc.scen(f"t{i}_time", m, T=2, ck=2, tt=7, p=p, deadline=dl))
    # RootsimStop from a handler and from an external thread: the final state is speculative, the commit log is not
    stopm = [T(2, [2, 1], [2, 1, 2], P=4, K=0, H=24, S=6), T(3, [1, 2, 1], [2, 1, 7], P=4, K=0, H=14, S=9)]
    for i, m in enumerate(stopm):
        sc.append(hc.scen(f"s{i}_handler", m, T=2, ck=2, p=p, deadline=dl))
    sc.append(hc.scen("x0_ext", T(2, [2, 1], [2, 1, 2], P=4, K=0, H=24), T=2, ck=2, p=2 if tier != "quick" else 1, deadline=dl,
                      extra=["xstop=6"]))
    sc.append(hc.scen("x1_ext", T(3, [1, 2, 1], [2, 1, 7], P=4, K=0, H=14), T=3, ck=1, p=1, deadline=dl, extra=["xstop=12"]))
    if tier != "quick":
        for i in (0, 2, 3):
            sc.append(hc.scen(f"t{i}_p2", TRICKLE[i], T=2, ck=2, p=2, j=16, deadline=1500))
        for i, m in enumerate(models.enumerate_models(limit=600, Hs=(8,))[::3]):
            sc.append(hc.scen(f"e{i}", m, T=2, ck=2, p=1, j=1, deadline=1500))
    return sc


def run(tier, seed):
    t0 = time.time()
    d = vc.fresh_dir(PID)
    import os
    binary = hc.build(os.path.join(d, "r1"))
    reps, m, viol = vc.rsched_scenarios(PID, "h_run", binary, scenarios(tier), d, workers=8)
    # every node: remote events, remote anti-messages (also early ones) feed the commit log too
    b2 = hc.build(os.path.join(d, "r2"), ranks=2)
    sc2 = [hc.scen("r2x1_m0", T(2, [1, 2], [2, 1, 7], P=5, K=5, H=6), T=1, ck=1, p=1, d=1, j=4, deadline=900)]
    if tier != "quick":
        sc2 += [hc.scen("r2x1_t2", TRICKLE[2], T=1, ck=2, p=1, d=1, j=8, deadline=1500),
                hc.scen("r2x2_t3", T(4, [1, 2, 1, 2], [2, 1, 7], P=5, K=100, H=8), T=2, ck=1, p=1, d=0, j=8, deadline=1500)]
    reps2, m2, viol2 = vc.rsched_scenarios(PID, "h_run2", b2, sc2, d, workers=2)
    reps += reps2
    viol += viol2
    m = vc.merge_rsched(reps)
    # the step function alone, under every delivery order and every legal GVT announcement
    preps, pm, pviol = hc.proc_part(PID, d, tier, part="small")
    viol += pviol
    if not viol:
        for k in ("fossil_releases", "rollbacks", "anti_extracted_processed", "ended_by_time", "ended_by_stop", "committed_events"):
            if hc.counters_nz(m, k) == 0:
                raise vc.EngineError(f"vacuous: no execution with '{k}'")
        if m["counters"]["fossil_releases"][0] < 2 * m["counters"]["fossil_releases"][1] * 0.5:
            raise vc.EngineError("vacuous: fewer than one releasing fossil collection per execution on average")
    n = vc.triage(PID, viol)
    cov = hc.coverage_from(m, reps, "fossil_releases",
                           "as C01, on long trickling models (10-40 timestamps, GVT period 0: back-to-back rounds) so that every LP is "
                           "fossil-collected several times per run, plus runs ended by a termination time and by RootsimStop (from a handler "
                           "at its k-th event, from an external thread); at every fossil_lp_collect and at process_lp_fini the entries that "
                           "leave the history (timestamp < GVT) are compared, in order, with the per-LP sequence of the reference executor: "
                           "timestamp, type, payload, and the state hash published by the last forward execution; nothing at or above the "
                           "GVT may be released; non-trivial = execution in which fossil collection released entries")
    hc.add_proc(cov, pm, preps)
    vc.write_evidence(PID, tier, "model_checking", cov,
                      ["call-granularity interleavings, <= 3 threads, 1-2 ranks", hc.PROC_ASSUMPTION,
                       "entries still held at shutdown are committed iff their timestamp is below the largest GVT reported to any thread"],
                      time.time() - t0, n, seed)
    return 1 if n else 0


def replay(path):
    import os
    d = vc.fresh_dir(PID + "_replay")
    if hc.is_proc_replay(path):
        return vc.rsched_replay(hc.build_proc(d), path)
    ranks = 2 if os.path.basename(path).startswith("r2") else 1
    return vc.rsched_replay(hc.build(d, ranks=ranks), path)
