"""C05 - rollback restores the exact LP state: real checkpoint take/restore + coast forward (s_ckpt)."""
import json
import os
import time
from lib import vcommon as vc
from checks import alloc_common as ac

PID = "C05"


def hc_nz(m, k):
    return m["counters"].get(k, [0, 0])[1]


def build(d, san=False):
    return {"small": ac.build_variant(d, "sc_small", "harness/s_ckpt.c", small=(6, 3), san=san),
            "prod": ac.build_variant(d, "sc_prod", "harness/s_ckpt.c", san=san)}


def plan(tier, b):
    jobs = []
    if tier == "quick":
        for s in range(16):
            jobs.append((b["small"], [5, s, 16, 0, 3, 3]))
        for perm in range(1, 6):
            jobs.append((b["small"], [4, 0, 1, perm, 3, 3]))
        for s in range(4):
            jobs.append((b["prod"], [4, s, 4, 0, 3, 2]))
    else:
        for s in range(32):
            jobs.append((b["small"], [6, s, 32, 0, 3, 4]))
        for perm in range(1, 6):
            for s in range(4):
                jobs.append((b["small"], [5, s, 4, perm, 3, 3]))
        for s in range(16):
            jobs.append((b["prod"], [5, s, 16, 0, 3, 3]))
    return jobs


def end_to_end(tier, d):
    """The parts of the property that live outside the allocator: the LP's random-number stream is replayed after a rollback and
    silently re-executed events emit nothing - oracle R of the whole-runtime harness on RNG-driven models."""
    from checks import hrun_common as hc
    from lib import models
    b1 = hc.build(os.path.join(d, "hrun"))
    sc = []
    for g in ((2, 4, 5) if tier == "quick" else range(1, 8)):
        m = models.text(3, [1, 2, 7], [2, 1, 7], P=5, K=6, G=g, H=5, M=1)
        sc.append(hc.scen(f"rng{g}_ck3", m, T=2, ck=3, p=1, j=2, deadline=600))
        if tier != "quick":
            sc.append(hc.scen(f"rng{g}_ck2T3", m, T=3, ck=2, p=1, j=2, deadline=900))
            sc.append(hc.scen(f"rng{g}_p2", m, T=2, ck=3, p=2, j=8, deadline=1500))
    reps, m, viol = vc.rsched_scenarios(PID, "h_run", b1, sc, d, workers=4)
    # two ranks: the coast forward has to step over the history marks of events sent to another node as well
    b2 = hc.build(os.path.join(d, "hrun2"), ranks=2)
    sc2 = [hc.scen("r2_rng2_ck3", models.text(3, [1, 2, 7], [2, 1, 7], P=5, K=6, G=2, H=5, M=1), T=1, ck=3, p=1, d=1, j=4, deadline=900),
           hc.scen("r2_m0_ck4", models.text(2, [1, 2], [2, 1, 7], P=5, K=5, H=6), T=1, ck=4, p=1, d=0, j=2, deadline=900)]
    if tier != "quick":
        sc2.append(hc.scen("r2x2_ck3", models.text(4, [1, 2, 7, 1], [2, 1, 7], P=5, K=5, M=1, H=4), T=2, ck=3, p=1, d=1, j=8, deadline=1500))
    reps2, m2, viol2 = vc.rsched_scenarios(PID, "h_run2", b2, sc2, d, workers=2)
    # the step function under every delivery order: state after every rollback + coast forward = forward state
    preps, pm, pviol = hc.proc_part(PID, d, tier, part="small")
    allreps = reps + reps2 + preps
    return allreps, vc.merge_rsched(allreps), viol + viol2 + pviol


def run(tier, seed):
    t0 = time.time()
    d = vc.fresh_dir(PID)
    b = build(d)
    dl = {"SX_DEADLINE": "200" if tier == "quick" else "2400"}
    reps = vc.run_parallel([(lambda x=x, a=a: vc.run_seqx(x, a, timeout=3600, env_extra=dl)) for x, a in plan(tier, b)])
    tot, viol = vc.seqx_collect(PID, "ckpt", reps)
    ereps, em, eviol = end_to_end(tier, d)
    viol += eviol
    if not eviol and (hc_nz(em, "silent_executions") == 0 or hc_nz(em, "rollbacks") == 0):
        raise vc.EngineError("vacuous: no rollback with coast forward in the end-to-end part")
    if not viol and tot["distinct_nontrivial"] < 1000:
        raise vc.EngineError("vacuous: hardly any rollback between checkpoints / after arena growth")
    n = vc.triage(PID, viol)
    cov = dict(tot)
    cov["samples"] = tot["samples"][:8]
    cov["states"] = tot["evaluations"]
    cov["transitions"] = tot["transitions"]
    cov["traces_validated_against_impl"] = tot["evaluations"]
    cov["runs"] = [{"args": r["args"], "events": r.get("events"), "arena_bytes": r.get("arena_bytes"), "scenarios": r["evaluations"],
                    "exhaustive": r.get("exhaustive")} for r in reps][:10]
    cov["end_to_end"] = {"executions": em["executions"], "with_coast_forward": hc_nz(em, "silent_executions"),
                         "scenarios": [r["id"] for r in ereps], "remote_events_sent": hc_nz(em, "remote_events_sent")}
    cov["evaluations"] = tot["evaluations"] + em["executions"]
    cov["rule"] = ("every history of n allocator events (malloc of 1 block / 2 blocks / half / whole arena, free, realloc, write) x "
                   "checkpoint interval 1..c (forced checkpoint after the init event, as lp/process.c) x rollback target q (at, between "
                   "and right after checkpoints) x second rollback target q2; each scenario = first run, real restore, coast forward, "
                   "comparison with the shadow snapshot, re-execution of the undone suffix compared position by position, second "
                   "rollback; states = scenarios, transitions = rollbacks performed; non-trivial = target strictly between checkpoints "
                   "(coast forward needed) or arenas created after the restored checkpoint")
    vc.write_evidence(PID, tier, "model_checking", cov,
                      ["after restore + coast forward every live block is where the first run had it: blocks that existed at the restored "
                       "checkpoint and blocks allocated by the still-valid events re-executed silently (first rollback of each scenario); blocks "
                       "re-allocated by events the rollback had undone are compared by identity, size and content only",
                       "event suppression during coast forward and the RNG stream: end-to-end part (h_run on RNG-driven models, 1 and 2 ranks with "
                       "checkpoint intervals 3-4 so that coast forward crosses local and remote sends; h_proc: every delivery order, state after "
                       "every rollback = state published by the forward execution of the last remaining event)"],
                      time.time() - t0, n, seed)
    return 1 if n else 0


def replay(path):
    if path.endswith(".replay"):
        from checks import hrun_common as hc
        d = vc.fresh_dir(PID + "_replay")
        if hc.is_proc_replay(path):
            return vc.rsched_replay(hc.build_proc(d), path)
        return vc.rsched_replay(hc.build(d, ranks=2 if os.path.basename(path).startswith("r2") else 1), path)
    r = json.load(open(path))
    d = vc.fresh_dir(PID + "_replay")
    b = build(d)
    rep = vc.run_seqx(b["prod" if len(r["args"]) > 5 and "65536" in r.get("case", "") else "small"], r["args"])
    hit = [v for v in rep["violations"] if v["signature"] == r["signature"]]
    print(json.dumps(hit[:1] or "not reproduced", indent=1))
    return 1 if hit else 0
