"""C04 - GVT is a monotone, agreed, safe lower bound (oracle G in h_run, fine-grained interleaving of the GVT/termination/queue atomics)."""
import time
from lib import vcommon as vc
from lib import models
from checks import hrun_common as hc

PID = "C04"
T = models.text

# tiny models that keep a message in every transient position while rounds run (GVT period 0: back-to-back rounds)
TINY = [
    T(2, [2, 1], [2, 1, 2], P=5, K=100, H=3),
    T(3, [2, 1, 2], [2, 1, 2], P=5, K=100, H=3),
    T(2, [5, 3], [1, 3, 2], P=5, K=100, H=3),       # ties + zero delay
    T(2, [1, 2], [2, 1, 7], P=5, K=100, H=4),       # stragglers: re-queued and cancelled messages during rounds
    T(3, [7, 0, 1], [7, 2, 1], P=5, K=100, H=4),
    # trickling traffic: events keep being extracted, held and sent while several rounds run
    T(2, [2, 1], [2, 1, 2], P=5, K=100, H=12),
    T(3, [1, 2, 1], [2, 1, 7], P=5, K=100, H=8),
]


def scenarios(tier):
    sc = []
    dl = 600 if tier == "quick" else 1500
    if tier == "quick":
        sc.append(hc.scen("f0_T2", TINY[0], T=2, ck=2, p=1, fine="gvt,queue,sync", oracle="G,M,K,E,T,R,L", j=4, deadline=dl))
        sc.append(hc.scen("f1_T3", TINY[1], T=3, ck=2, p=1, fine="gvt", oracle="G,M,K,E,T,R,L", j=4, deadline=dl))
        sc.append(hc.scen("f2_T2", TINY[2], T=2, ck=1, p=1, fine="gvt,queue", j=4, deadline=dl))
        sc.append(hc.scen("f3_T2", TINY[3], T=2, ck=2, p=1, fine="gvt,queue", j=4, deadline=dl))
        sc.append(hc.scen("f5_T2", TINY[5], T=2, ck=2, p=1, fine="gvt", j=4, deadline=dl))
        sc.append(hc.scen("c6_T3", TINY[6], T=3, ck=1, p=1, j=4, deadline=dl))
        sc.append(hc.scen("c3_p2", TINY[3], T=2, ck=2, p=2, j=8, deadline=dl))
        sc.append(hc.scen("c4_p1", TINY[4], T=3, ck=3, p=1, j=4, deadline=dl))
    else:
        for i, m in enumerate(TINY):
            sc.append(hc.scen(f"f{i}_T2", m, T=2, ck=2, p=1, fine="gvt,queue,sync", j=4, deadline=dl))
            sc.append(hc.scen(f"f{i}_T3", m, T=3, ck=2, p=1, fine="gvt,queue", j=4, deadline=dl))
            sc.append(hc.scen(f"c{i}_p2", m, T=2, ck=2, p=2, j=8, deadline=dl))
            sc.append(hc.scen(f"c{i}_p2T3", m, T=3, ck=1, p=2, j=8, deadline=dl))
        sc.append(hc.scen("f0_p2", T(2, [2, 1], [2, 1, 2], P=5, K=100, H=2), T=2, ck=2, p=2, fine="gvt", j=16, deadline=2400))
        sc.append(hc.scen("f3_p2", T(2, [1, 2], [2, 1, 7], P=5, K=100, H=2), T=2, ck=2, p=2, fine="gvt,queue", j=16, deadline=2400))
        sc.append(hc.scen("c3_p3", TINY[3], T=2, ck=2, p=3, j=16, deadline=2400))
    return sc


def build_hgvt(d):
    """h_gvt includes gvt/gvt.c and datatypes/msg_queue.c (so that their file-scope state is visible to the digest); it is compiled
    like a core object, with the hook header."""
    import os
    sub = os.path.join(d, "hgvt")
    extra = ["-w", "-include", os.path.join(vc.VERIF, "engine", "vy.h")]
    objs = vc.build_objs(sub, ["harness/h_gvt.c"], extra=extra) + vc.build_objs(sub, ["engine/rsched.c", "engine/plat.c"], extra=["-w"])
    return vc.link(os.path.join(sub, "h_gvt"), objs)


def run(tier, seed):
    t0 = time.time()
    d = vc.fresh_dir(PID)
    binary = hc.build(d)
    reps, m, viol = vc.rsched_scenarios(PID, "h_run", binary, scenarios(tier), d, workers=4)
    if not viol:
        for k in ("gvt_reports", "rollbacks", "anti_messages", "cancelled_while_queued"):
            if hc.counters_nz(m, k) == 0:
                raise vc.EngineError(f"vacuous: no execution with '{k}'")
        if m["counters"]["gvt_reports"][0] < 2 * m["executions"]:
            raise vc.EngineError("vacuous: fewer than 2 GVT reports per execution on average")
    # (c) the coloured message counting across ranks: a message of the old colour delayed across the first reduction, etc.
    import os
    b2 = hc.build(os.path.join(d, "r2"), ranks=2)
    sc2 = [hc.scen("r2x1_m0", T(2, [1, 2], [2, 1, 7], P=5, K=5, H=6), T=1, ck=2, p=1, d=1, j=4, deadline=900),
           hc.scen("r2x1_trickle", T(2, [2, 1], [2, 1, 2], P=5, K=100, H=10), T=1, ck=2, p=1, d=1, j=4, deadline=900)]
    if tier != "quick":
        sc2 += [hc.scen("r2x2_m3", T(4, [1, 2, 7, 1], [2, 1, 7], P=5, K=5, H=4), T=2, ck=2, p=1, d=1, j=16, deadline=2400),
                hc.scen("r2x1_m0_d2", T(2, [1, 2], [2, 1, 7], P=5, K=5, H=6), T=1, ck=2, p=1, d=2, j=16, deadline=2400)]
    reps2, m2, viol2 = vc.rsched_scenarios(PID, "h_run2", b2, sc2, d, workers=2)
    reps += reps2
    viol += viol2
    # (b) the thread-phase protocol with the real queue, closed by a cyclic driver: complete-state search
    hg = build_hgvt(d)
    if tier == "quick":
        gsc = [("gvt_state_T2a", ["--stateful", "-j", "8", "--max-level", "3", "--deadline", "600", "T=2", "K=1", "w=a"]),
               ("gvt_state_T2b", ["--stateful", "-j", "8", "--max-level", "2", "--deadline", "600", "T=2", "K=2", "w=b"])]
    else:
        gsc = [("gvt_state_T2a", ["--stateful", "-j", "16", "--deadline", "3000", "T=2", "K=1", "w=a"]),
               ("gvt_state_T2b", ["--stateful", "-j", "16", "--max-level", "5", "--deadline", "1500", "T=2", "K=2", "w=b"]),
               ("gvt_state_T3c", ["--stateful", "-j", "16", "--max-level", "3", "--deadline", "1500", "T=3", "K=1", "w=c"])]
    greps, gm, gviol = vc.rsched_scenarios(PID, "h_gvt", hg, gsc, d, workers=2)
    reps += greps
    viol += gviol
    # (e) shared static state of the GVT / termination code used without atomics (per-thread slots, timers): interleavings inside calls
    rreps, rm, rviol = hc.race_part(PID, d, tier, [("m0", T(2, [1, 2], [2, 1, 7], P=5, K=5, H=6), 2, 2), ("m1", T(3, [7, 0, 1], [7, 2, 1], P=5, K=5, H=6), 3, 1)])
    reps += rreps
    viol += rviol
    m = vc.merge_rsched(reps)
    # (d) the half of the safety argument that lives in lp/process.c: every process_msg() call reports to the GVT module a timestamp <=
    # everything it puts in flight (anti-message cascades included), for every delivery order
    preps, pm, pviol = hc.proc_part(PID, d, tier, part="acct")
    viol += pviol
    n = vc.triage(PID, viol)
    cov = hc.coverage_from(m, reps, "gvt_reports",
                           "as C01 but with every atomic operation of gvt/gvt.c, gvt/termination.c, parallel/parallel.c (and, per scenario, "
                           "datatypes/msg_queue.c and core/sync.c) as a scheduling point in addition to the call boundaries; GVT period 0 so "
                           "that rounds run back to back while messages are in a producer's hands, in the inter-thread buffer, in the heap, "
                           "extracted, re-queued by a rollback or cancelled in place; oracle G: per-thread GVT sequences non-decreasing, the "
                           "k-th value equal on every thread, no extraction and no rollback below a value already told to the thread, and at "
                           "the moment a value is told nothing below it is queued for any thread or in MPI flight; non-trivial = execution "
                           "with >= 1 GVT value reported; plus h_gvt: the GVT reduction (gvt.c) and the real queue closed by a cyclic "
                           "driver (2-3 workers running the main-loop shape for ever on a finite message workload), stateful search on a "
                           "complete-state digest: every interleaving down to the stated choice depth (thorough: until the state graph of "
                           "the smallest configuration is closed)")
    cov["gvt_protocol_state_search"] = [{"id": r["id"], "states": r["distinct_states"], "transitions": r["distinct_transitions"],
                                         "closed": r["exhaustive"], "level_completed": r["level_completed"]} for r in greps]
    cov["states"] += sum(r["distinct_states"] for r in greps)
    hc.add_proc(cov, pm, preps)
    cov["rule"] += ". " + hc.RACE_RULE
    cov["rule"] += ("; for C04 the h_proc oracle that matters is the accounting contract: by the time a process_msg() call returns, the smallest "
                    "timestamp it passed to gvt_on_msg_extraction() is <= the timestamp of every message it put in flight for another worker "
                    "(the receiver may already have sampled its queue, so only the sender's accumulator can cover it) - checked on every call "
                    "of every delivery order of models with cancellation cascades (an extracted anti-message whose rollback cancels a "
                    "message a third LP has processed)")
    vc.write_evidence(PID, tier, "model_checking", cov,
                      ["sequentially consistent interleavings of the hooked atomics; the relaxed orderings in gvt.c are not modelled",
                       "<= 2 ranks for the coloured message counting",
                       "rounds whose value is 0.0 and rounds completed inside gvt_msg_drain are not reported to anybody by design"],
                      time.time() - t0, n, seed)
    return 1 if n else 0


def replay(path):
    import os
    d = vc.fresh_dir(PID + "_replay")
    name = os.path.basename(path)
    if hc.is_race_replay(path):
        return vc.rsched_replay(hc.build(d, race=True), path)
    if name.startswith("gvt_state"):
        return vc.rsched_replay(build_hgvt(d), path)
    if hc.is_proc_replay(path):
        return vc.rsched_replay(hc.build_proc(d), path)
    return vc.rsched_replay(hc.build(d, ranks=2 if name.startswith("r2") else 1), path)
