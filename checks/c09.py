"""C09 - results are configuration-independent and repeatable; the RNG replays after rollback.
Every cell of the configuration matrix is compared with the same reference execution (E/K/R oracles of h_run), hence with every other cell."""
import os
import time
from lib import vcommon as vc
from lib import models
from checks import hrun_common as hc

PID = "C09"
T = models.text


def rng_models():
    # one model per library distribution: U64, Random, Expent, Normal, Gamma, Zipf, RandomRange; stragglers guaranteed by the send rules
    return [T(3, [1, 2, 7], [2, 1, 7], P=5, K=6, G=g, H=5, M=(g % 2)) for g in range(1, 8)]


def run(tier, seed):
    t0 = time.time()
    d = vc.fresh_dir(PID)
    b1 = hc.build(os.path.join(d, "r1"))
    b2 = hc.build(os.path.join(d, "r2"), ranks=2)
    dl = 600 if tier == "quick" else 1500
    ms = rng_models()
    sc1, sc2 = [], []
    cells = [(t, ck, gp) for t in (1, 2, 3) for ck in (1, 2, 3, 0) for gp in (0, 1)]
    for i, m in enumerate(ms):
        for (t, ck, gp) in cells:
            if tier == "quick" and (i + t + ck + gp) % 3:
                continue  # a third of the matrix per model at p=0 (every cell is hit by some model)
            sc1.append(hc.scen(f"g{i + 1}_T{t}ck{ck}gp{gp}", m, T=t, ck=ck, gp=gp, p=0, j=1, deadline=dl))
        # repetition of a cell and p=1 on a sub-matrix
        sc1.append(hc.scen(f"g{i + 1}_rep", m, T=2, ck=2, gp=0, p=0, j=1, deadline=dl))
        sc1.append(hc.scen(f"g{i + 1}_p1", m, T=2, ck=1 + i % 3, gp=0, p=1, j=2, deadline=dl))
        sc2.append(hc.scen(f"g{i + 1}_r2", m, T=1, ck=2, p=(1 if tier != "quick" or i < 3 else 0), d=1, j=2, deadline=dl))
        if tier != "quick":
            sc1.append(hc.scen(f"g{i + 1}_T3p1", m, T=3, ck=0, gp=1, p=1, j=2, deadline=dl))
            sc1.append(hc.scen(f"g{i + 1}_p2", m, T=2, ck=2, p=2, j=8, deadline=dl))
            sc2.append(hc.scen(f"g{i + 1}_r2x2", m, T=2, ck=3, p=1, d=0, j=4, deadline=dl))
    reps, m, viol = vc.rsched_scenarios(PID, "h_run", b1, sc1, d, workers=8)
    reps2, m2, viol2 = vc.rsched_scenarios(PID, "h_run2", b2, sc2, d, workers=4)
    reps += reps2
    viol += viol2
    m = vc.merge_rsched(reps)
    if not viol or all("deadlock" in v["signature"] for v in viol):
        for k in ("rng_stream_checked", "rollbacks", "silent_executions", "end_state_compared", "remote_events_sent"):
            if hc.counters_nz(m, k) == 0:
                raise vc.EngineError(f"vacuous: no execution with '{k}'")
    # the library keeps no state outside the LP: one complete call of another LP injected between and inside the calls of an LP
    lrep, ltot, lviol = hc.libstate_part(PID, d)
    viol += lviol
    n = vc.triage(PID, viol)
    cov = hc.coverage_from(m, reps, "silent_executions",
                           "7 models, one per library distribution (RandomU64, Random, Expent, Normal, Gamma, Zipf, RandomRange; every event "
                           "folds a draw into the LP state) x the matrix threads {1,2,3} x checkpoint interval {1,2,3,auto} x GVT period "
                           "{0, never} (+ a repeated cell, + 2 ranks) at p=0, sub-matrix at p<=1 (thorough p<=2); every cell is compared "
                           "with the same reference execution: first four raw draws of every LP at LP_INIT (stream = f(seed, LP id)), every "
                           "committed state hash (which contains the generator state), the state after every rollback and every silent "
                           "re-execution (replay of the stream), the end state; non-trivial = execution with >= 1 coast-forward event")
    cov["library_hidden_state"] = {"evaluations": ltot["evaluations"], "hidden_state_accesses": lrep.get("hidden_state_accesses"),
                                   "calls": lrep.get("calls"), "samples": ltot["samples"][:2]}
    cov["evaluations"] += ltot["evaluations"]
    cov["rule"] += "; " + hc.LIBSTATE_RULE
    vc.write_evidence(PID, tier, "model_checking", cov,
                      ["core binding only calls thread_affinity_set, which is replaced in verification builds",
                       "one seed (4242); the seed enters only through random_lib_lp_init, which C18/refexec exercise separately"],
                      time.time() - t0, n, seed)
    return 1 if n else 0


def replay(path):
    d = vc.fresh_dir(PID + "_replay")
    if path.endswith(".json"):
        import json
        r = json.load(open(path))
        rep = vc.run_seqx(hc.build_libstate(d), r["args"])
        hit = [v for v in rep["violations"] if v["signature"] == r["signature"]]
        print(json.dumps(hit[:1] or "not reproduced", indent=1))
        return 1 if hit else 0
    ranks = 2 if "_r2" in os.path.basename(path) else 1
    return vc.rsched_replay(hc.build(d, ranks=ranks), path)
