"""C01 - parallel (multi-thread) results equal the sequential execution: vmodel models on the real parallel runtime under rsched."""
import os
import time
from lib import vcommon as vc
from lib import models
from checks import hrun_common as hc

PID = "C01"
T = models.text

# models that roll back a lot under small preemption bounds (stragglers across threads, ties, zero delay, memory, payloads)
CORE_MODELS = [
    T(2, [1, 2], [2, 1, 7], P=0, K=5, H=6),
    T(3, [7, 0, 1], [7, 2, 1], P=0, K=5, H=6),
    T(2, [5, 1], [1, 5, 2], P=0, K=6, M=1, H=8),
    T(3, [3, 1, 2], [2, 3, 1], P=0, K=4, H=5),          # zero-delay, lower type
    T(3, [4, 2, 1], [4, 2, 1], P=0, K=4, M=2, H=7),      # 40-byte payloads, several arenas
    T(2, [6, 2], [2, 6, 1], P=0, K=6, H=4, C=3),         # same-timestamp chains
    T(3, [2, 1, 5], [5, 1, 2], P=5, K=5, M=1, H=6),      # keeps changing after the predicate holds
    T(2, [2, 1], [1, 2, 2], P=0, K=4, G=2, H=6),         # Random() driven
    T(3, [1, 1, 2], [2, 2, 1], P=1, K=0, H=4),           # predicate true at init
    T(1, [1], [1, 1, 1], P=0, K=3, H=6),                 # one LP
    T(4, [2, 1, 7, 0], [7, 1, 2], P=0, K=3, H=5),        # more LPs than threads
    T(2, [7, 7], [5, 7, 2], P=5, K=9, H=5),              # fan-out 2 + ties
    T(2, [9, 9], [9, 2, 9], P=5, K=12, H=5),             # ties between 40-byte payloads differing beyond byte 32
    T(2, [10, 1], [1, 2, 10], P=0, K=6, H=4, C=1),       # zero-delay relay of an unchanged event: content-equal events pending at once
    T(3, [10, 10, 10], [0, 0, 10], P=0, K=5, H=3, C=2),
]


def scenarios(tier):
    sc = []
    if tier == "quick":
        for i, m in enumerate(CORE_MODELS):
            sc.append(hc.scen(f"m{i}_T2ck2", m, T=2, ck=2, p=1))
            sc.append(hc.scen(f"m{i}_T3ck0gp1", m, T=3, ck=0, gp=1, p=1))
        # longer runs with back-to-back GVT rounds: fossil collection while ties are pending
        sc.append(hc.scen("trickle0", T(2, [2, 1], [2, 1, 2], P=5, K=100, H=24), T=2, ck=1, p=1))
        sc.append(hc.scen("trickle1", T(3, [1, 2, 1], [2, 1, 7], P=5, K=100, H=12), T=3, ck=1, p=1))
        sc.append(hc.scen("m0_p2", CORE_MODELS[0], T=2, ck=3, p=2, j=8))
        sc.append(hc.scen("m1_p2", CORE_MODELS[1], T=2, ck=1, p=2, j=8))
        for i, m in enumerate(models.enumerate_models(limit=150)[::3]):
            sc.append(hc.scen(f"e{i}", m, T=2, ck=2, p=0, j=1))
    else:
        sc.append(hc.scen("trickle0", T(2, [2, 1], [2, 1, 2], P=5, K=100, H=24), T=2, ck=1, p=2, j=8, deadline=1500))
        sc.append(hc.scen("trickle1", T(3, [1, 2, 1], [2, 1, 7], P=5, K=100, H=12), T=3, ck=1, p=2, j=8, deadline=1500))
        sc.append(hc.scen("trickle2", T(2, [5, 1], [1, 5, 2], P=5, K=100, M=1, H=16), T=2, ck=2, p=1, j=4, deadline=1500))
        cfgs = [(1, 1, 0), (2, 1, 0), (2, 2, 0), (2, 3, 1), (3, 0, 0), (3, 2, 1)]
        for i, m in enumerate(CORE_MODELS):
            for (t, ck, gp) in cfgs:
                sc.append(hc.scen(f"m{i}_T{t}ck{ck}gp{gp}", m, T=t, ck=ck, gp=gp, p=1, deadline=1500))
            sc.append(hc.scen(f"m{i}_p2", m, T=2, ck=2, p=2, j=8, deadline=1500))
        for i in (0, 1, 3):
            sc.append(hc.scen(f"m{i}_p3", CORE_MODELS[i], T=2, ck=2, p=3, j=16, deadline=1500))
        ms = models.enumerate_models(limit=3000)
        for i, m in enumerate(ms[:300]):
            sc.append(hc.scen(f"e{i}_p1", m, T=2, ck=2, p=1, j=1, deadline=1500))
        for i, m in enumerate(ms):
            sc.append(hc.scen(f"e{i}", m, T=3 if i % 2 else 2, ck=(i % 4), p=0, j=1, deadline=1500))
    return sc


def run(tier, seed):
    t0 = time.time()
    d = vc.fresh_dir(PID)
    binary = hc.build(d)
    reps, m, viol = vc.rsched_scenarios(PID, "h_run", binary, scenarios(tier), d, workers=8)
    # the step function alone, under every delivery order and every legal GVT announcement
    preps, pm, pviol = hc.proc_part(PID, d, tier, part="small")
    viol += pviol
    # interleavings inside calls at plain accesses to shared static storage
    rreps, rm, rviol = hc.race_part(PID, d, tier, [("m0", CORE_MODELS[0], 2, 2), ("m1", CORE_MODELS[1], 3, 1), ("m4", CORE_MODELS[4], 2, 3)])
    viol += rviol
    if not viol:
        for k in ("rollbacks", "anti_messages", "silent_executions", "end_state_compared", "ended_by_predicate", "fossil_releases"):
            if hc.counters_nz(m, k) == 0:
                raise vc.EngineError(f"vacuous: no execution with '{k}'")
    n = vc.triage(PID, viol)
    cov = hc.coverage_from(m, reps, "rollbacks",
                           "each execution = one complete run of RootsimRun() on the real parallel runtime (2-3 worker threads, fake MPI for "
                           "the control messages) under the deterministic scheduler, for one vmodel program, configuration (threads, "
                           "checkpoint interval incl. automatic, GVT period 0 / never-without-clock-jump) and choice sequence; all choice "
                           "sequences with <= p non-default scheduling decisions at call granularity are enumerated; oracles: end state = "
                           "sequential state at the first-true point (or final state on exhaustion), every committed event and state hash = "
                           "sequential, state after every rollback = recorded forward state; non-trivial = execution with >= 1 rollback; "
                           "states = distinct choice-tree nodes, transitions = scheduling steps")
    hc.add_proc(cov, pm, preps)
    cov["race_build"] = {"executions": rm["executions"], "scenarios": vc.scenario_table(rreps), "max_choice_points": rm["max_points"]}
    cov["evaluations"] += rm["executions"]
    cov["rule"] += ". " + hc.RACE_RULE
    vc.write_evidence(PID, tier, "model_checking", cov,
                      [hc.PROC_ASSUMPTION, "interleavings at call granularity (process_msg / mpi_remote_msg_handle / gvt_phase_run boundaries); in-call "
                       "interleavings are covered by the fine-grained harnesses of C04, C06, C15, C17",
                       "models of the vmodel grammar, <= 4 LPs, <= 3 threads; sequentially consistent memory"],
                      time.time() - t0, n, seed)
    return 1 if n else 0


def replay(path):
    d = vc.fresh_dir(PID + "_replay")
    if hc.is_proc_replay(path):
        return vc.rsched_replay(hc.build_proc(d), path)
    return vc.rsched_replay(hc.build(d, race=hc.is_race_replay(path)), path)
