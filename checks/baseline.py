"""Runs the repository's own test suite with the verification guard OFF (plain CMake build, no -DROOTSIM_VERIF).
A test that only hits the hard 60 s per-test limit of test/CMakeLists.txt (loaded machine) is re-run alone without the limit."""
import os
import re
import shutil
import subprocess
from lib import vcommon as vc


def run():
    d = vc.fresh_dir("baseline")
    try:
        p = subprocess.run(["cmake", "-G", "Ninja", "-S", vc.REPO, "-B", d, "-DCMAKE_BUILD_TYPE=RelWithDebInfo",
                            "-DCMAKE_C_FLAGS=-Wno-error"], capture_output=True, text=True)
        if p.returncode:
            print(p.stdout[-2000:], p.stderr[-2000:])
            return 2
        p = subprocess.run(["cmake", "--build", d, "-j", str(vc.NPROC)], capture_output=True, text=True)
        if p.returncode:
            print(p.stdout[-3000:], p.stderr[-2000:])
            return 2
        env = dict(os.environ)
        env["OMPI_ALLOW_RUN_AS_ROOT"] = "1"
        env["OMPI_ALLOW_RUN_AS_ROOT_CONFIRM"] = "1"
        p = subprocess.run(["ctest", "--test-dir", d, "-j8", "--timeout", "900"], capture_output=True, text=True, env=env)
        print(p.stdout[-3000:])
        if p.returncode == 0:
            return 0
        failed = re.findall(r"^\s+\d+ - (\S+) \((\w+)\)", p.stdout, re.M)
        bad = [n for n, why in failed if why != "Timeout"]
        for n, why in failed:
            if why != "Timeout":
                continue
            q = subprocess.run([os.path.join(d, "test", n)], capture_output=True, text=True, env=env, timeout=3600)
            print(f"re-run alone without the 60 s limit: {n}: {'pass' if q.returncode == 0 else 'FAIL rc=%d' % q.returncode}")
            if q.returncode:
                bad.append(n)
        return 1 if bad else 0
    finally:
        shutil.rmtree(d, ignore_errors=True)
