"""Runs the repository's own test suite with the verification guard OFF (plain CMake build)."""
import os
import shutil
import subprocess
from lib import vcommon as vc


def run():
    d = vc.fresh_dir("baseline")
    try:
        p = subprocess.run(["cmake", "-G", "Ninja", "-S", vc.REPO, "-B", d, "-DCMAKE_BUILD_TYPE=RelWithDebInfo",
                            "-DCMAKE_C_FLAGS=-Wno-error"], capture_output=True, text=True)
        if p.returncode:
            print(p.stdout[-2000:], p.stderr[-2000:])
            return 2
        p = subprocess.run(["cmake", "--build", d, "-j", str(vc.NPROC)], capture_output=True, text=True)
        if p.returncode:
            print(p.stdout[-3000:], p.stderr[-2000:])
            return 2
        env = dict(os.environ)
        env["OMPI_ALLOW_RUN_AS_ROOT"] = "1"
        env["OMPI_ALLOW_RUN_AS_ROOT_CONFIRM"] = "1"
        p = subprocess.run(["ctest", "--test-dir", d, "-j8", "--timeout", "900"], capture_output=True, text=True, env=env)
        print(p.stdout[-3000:])
        return 0 if p.returncode == 0 else 1
    finally:
        shutil.rmtree(d, ignore_errors=True)
