"""C15 - inter-thread message queue: real datatypes/msg_queue.c under rsched (h_queue)."""
import itertools
import os
import time
from lib import vcommon as vc

PID = "C15"


def build(d):
    core = vc.build_core(d, files=["datatypes/msg_queue.c"])
    objs = vc.build_objs(d, ["harness/h_queue.c", "engine/rsched.c"])
    return vc.link(os.path.join(d, "h_queue"), objs + core)


def scenarios(tier):
    sc = []
    allops = ["".join(o) for o in itertools.product("EP", repeat=5)]
    cfgs = [("a", ["P=2", "M=2", "times=1212", "anti=-1"]), ("b", ["P=2", "M=2", "times=1122", "anti=1"])]
    for cn, c in cfgs:
        for o in allops:
            sc.append((f"sl_{cn}_{o}", ["-p", "2", "-j", "2", "--deadline", "600", f"ops={o}"] + c))
    # one producer, three messages: pure order/ties behaviour of the heap path
    for o in allops[::3]:
        sc.append((f"sl_c_{o}", ["-p", "3", "-j", "2", "--deadline", "600", f"ops={o}", "P=1", "M=3", "times=212", "anti=2"]))
    # another thread may also run right after an atomic that changed something (before the plain code that follows it)
    for o in (["EPEPE", "EEEEE", "PEPEE", "EEPEE"] if tier == "quick" else allops[::2]):
        sc.append((f"pp_a_{o}", ["-p", "2", "--post-points", "-j", "2", "--deadline", "600", f"ops={o}"] + cfgs[0][1]))
    if tier == "quick":
        st_ops = ["PEPEE"]
        for o in st_ops:
            sc.append((f"st_a_{o}", ["--stateful", "-j", "8", "--deadline", "600", f"ops={o}"] + cfgs[0][1]))
        sc.append(("cas_a_EPEPE", ["-p", "1", "-d", "2", "--spurious-cas", "-j", "2", "--deadline", "600", "ops=EPEPE"] + cfgs[0][1]))
    else:
        for cn, c in cfgs:
            for o in allops:
                sc.append((f"st_{cn}_{o}", ["--stateful", "-j", "4", "--deadline", "1500", f"ops={o}"] + c))
        for o in ["EPEPE", "PPEEE", "EEEEE"]:
            sc.append((f"stcas_a_{o}", ["--stateful", "--spurious-cas", "-j", "4", "--deadline", "1500", f"ops={o}"] + cfgs[0][1]))
            sc.append((f"p3_{o}", ["-p", "2", "-j", "4", "--deadline", "1500", f"ops={o}", "P=3", "M=1", "times=121", "anti=0"]))
            sc.append((f"p3m2_{o}", ["-p", "2", "-j", "4", "--deadline", "1500", f"ops={o}", "P=3", "M=2", "times=121212", "anti=3"]))
    return sc


def run(tier, seed):
    t0 = time.time()
    d = vc.fresh_dir(PID)
    binary = build(d)
    reps, m, viol = vc.rsched_scenarios(PID, "h_queue", binary, scenarios(tier), d, workers=8 if tier == "quick" else 4)
    if not viol:
        c = m["counters"]
        for k in ("cas_failed", "extract_null", "extract_msg", "peek_empty", "peek_value"):
            if c.get(k, [0, 0])[1] == 0:
                raise vc.EngineError(f"vacuous: outcome class '{k}' never observed")
        if m["distinct_outcomes"] < 10:
            raise vc.EngineError("vacuous: fewer than 10 distinct consumer histories")
    # the queue inside the runtime: start-up (every buffer reset before any LP_INIT handler may insert), cross-thread inserts from
    # LP_INIT, shutdown; oracle: the monitor of inserted / extracted / still-queued messages of h_run (a lost message stays "queued"
    # for ever and the GVT passes it), plus its end-state and commit oracles
    from checks import hrun_common as hc
    from lib import models
    hb = hc.build(os.path.join(d, "hrun"), race=True, name="h_run_race")  # also interleaves at plain accesses to shared statics
    hsc = [hc.scen("rt_m0_T2", models.text(2, [1, 2], [2, 1, 7], P=0, K=5, H=6), T=2, ck=2, p=1, j=4, deadline=600),
           hc.scen("rt_m1_T3", models.text(3, [7, 0, 1], [7, 2, 1], P=0, K=5, H=6), T=3, ck=1, p=1, j=4, deadline=600),
           hc.scen("rt_init4_T3", models.text(4, [2, 2, 2, 2], [1, 2, 2], P=5, K=4, H=4), T=3, ck=0, gp=1, p=1, j=4, deadline=600)]
    if tier != "quick":
        hsc += [hc.scen("rt_m0_T2_p2", models.text(2, [1, 2], [2, 1, 7], P=0, K=5, H=6), T=2, ck=2, p=2, j=8, deadline=1500),
                hc.scen("rt_init4_T4", models.text(4, [2, 2, 2, 2], [1, 2, 2], P=5, K=4, H=4), T=4, ck=2, p=1, j=8, deadline=1500)]
    hreps, hm, hviol = vc.rsched_scenarios(PID, "h_run", hb, hsc, d, workers=3)
    viol += hviol
    n = vc.triage(PID, viol)
    cov = {
        "states": sum(r["distinct_states"] for r in reps if r["mode"] == "stateful") + m["new_choice_points"],
        "transitions": m["steps"],
        "traces_validated_against_impl": m["executions"],
        "evaluations": m["executions"],
        "distinct_nontrivial": m["counters"].get("cas_failed", [0, 0])[1],
        "rule": "each execution runs the real msg_queue_insert/extract/time_peek with 1-3 producers and a consumer op string over "
                "{extract,peek}^5; non-trivial = at least one producer CAS lost a race (another insert or the consumer's swap hit "
                "the same list head in between); states = complete-state digests (stateful) + choice-tree nodes (stateless)",
        "samples": m["samples"][:6],
        "exhaustive": m["exhaustive"], "deadline_hit": m["deadline_hit"],
        "scenarios_run": len(reps),
        "stateful_closed": [r["id"] for r in reps if r["mode"] == "stateful" and r["exhaustive"]],
        "scenarios": vc.scenario_table(reps)[:12],
        "counters": m["counters"], "distinct_outcomes": m["distinct_outcomes"],
    }
    cov["evaluations"] += hm["executions"]
    cov["traces_validated_against_impl"] += hm["executions"]
    cov["queue_inside_the_runtime"] = {"executions": hm["executions"], "scenarios": vc.scenario_table(hreps), "exhaustive": hm["exhaustive"]}
    cov["rule"] += ("; plus the queue inside the whole runtime (h_run, 2-4 threads, LP_INIT handlers inserting for LPs of other threads, call-"
                    "granularity interleavings p<=1 incl. the start-up and shutdown barriers): no inserted message is lost - the monitor's "
                    "'still queued' set must be empty below every reported GVT, committed events = sequential execution")
    vc.write_evidence(PID, tier, "model_checking", cov,
                      ["sequentially consistent interleavings of the hooked atomics and of operation boundaries",
                       "message count <= 6, producers <= 3, consumer op strings of length 5 followed by a full drain",
                       "stateful pruning relies on the harness digest (list, transfer order, consumer history, producer positions)"],
                      time.time() - t0, n, seed)
    return 1 if n else 0


def replay(path):
    d = vc.fresh_dir(PID + "_replay")
    if os.path.basename(path).startswith("rt_"):
        from checks import hrun_common as hc
        return vc.rsched_replay(hc.build(d, race=True), path)
    return vc.rsched_replay(build(d), path)
