"""C08 - every run returns: termination and shutdown are live (oracle L: no deadlock, no livelock, LP_FINI once per LP)."""
import time
from lib import vcommon as vc
from lib import models
from checks import hrun_common as hc
from checks import c07

PID = "C08"
T = models.text

BASE = [
    T(2, [2, 1], [2, 1, 2], P=0, K=3, H=6),          # ends by predicate
    T(3, [1, 2, 1], [2, 1, 7], P=5, K=4, H=6),
    T(2, [1, 2], [2, 1, 7], P=4, K=0, H=5),          # never: ends by exhaustion
]


def scenarios(tier):
    sc = []
    dl = 600 if tier == "quick" else 1500
    B = 40000
    # termination notification vs an in-progress / just-started GVT round, fine-grained
    sc.append(hc.scen("f_pred_T2", BASE[0], T=2, ck=2, p=1, fine="gvt,sync", j=4, deadline=dl, budget=B))
    sc.append(hc.scen("f_pred_T3", BASE[1], T=3, ck=2, p=1, fine="gvt", j=4, deadline=dl, budget=B))
    sc.append(hc.scen("f_time_T2", BASE[2], T=2, ck=2, tt=3, p=1, fine="gvt,sync", j=4, deadline=dl, budget=B))
    sc.append(hc.scen("c_pred_p2", BASE[0], T=2, ck=2, p=2, j=8, deadline=dl, budget=B))
    sc.append(hc.scen("c_gp1_T2", BASE[0], T=2, ck=2, gp=1, p=1, fine="gvt", j=4, deadline=dl, budget=B))
    # a long run stopped early from a handler, one rank: prompt return
    sc.append(hc.scen("stop_long_T2", T(2, [2, 1], [2, 1, 2], P=4, K=0, H=900, S=3), T=2, ck=3, p=0, j=1, deadline=dl, budget=2000000,
                      extra=["stopprompt=400"]))
    # fewer LPs than requested threads, predicates hold early while the model keeps producing events: the run must end promptly
    sc.append(hc.scen("prompt_L1T2", T(1, [1], [1, 1, 1], P=5, K=3, H=300), T=2, ck=2, p=1, j=2, deadline=dl, budget=B, extra=["prompt=150"]))
    sc.append(hc.scen("prompt_L2T3", T(2, [1, 2], [2, 1, 2], P=5, K=3, H=200), T=3, ck=2, p=1, j=2, deadline=dl, budget=B, extra=["prompt=150"]))
    sc.append(hc.scen("prompt_L3T2", T(3, [1, 2, 1], [2, 1, 1], P=5, K=3, H=150), T=2, ck=2, p=0, j=1, deadline=dl, budget=B, extra=["prompt=200"]))
    # RootsimStop from a handler and from an external thread placed at every point
    sc.append(hc.scen("stop_handler", T(2, [2, 1], [2, 1, 2], P=4, K=0, H=12, S=3), T=2, ck=2, p=1, fine="gvt", j=4, deadline=dl, budget=B))
    for x in ((0, 3, 9, 20) if tier == "quick" else (0, 1, 2, 3, 5, 9, 14, 20, 30)):
        sc.append(hc.scen(f"stop_ext{x}", T(2, [2, 1], [2, 1, 2], P=4, K=0, H=12), T=2, ck=2, p=1, j=2, deadline=dl, budget=B,
                          extra=[f"xstop={x}"]))
        sc.append(hc.scen(f"stop_ext{x}_T3", T(3, [1, 2, 1], [2, 1, 7], P=4, K=0, H=8), T=3, ck=1, p=1, j=2, deadline=dl, budget=B,
                          extra=[f"xstop={x}"]))
    # same-timestamp chains longer than the 64 process_msg calls of one loop iteration: messages still queued when the loop exits
    sc.append(hc.scen("chain70_pred", T(2, [6, 6], [2, 2, 6], P=0, K=5, H=3, C=70), T=2, ck=3, p=1, j=2, deadline=dl, budget=B))
    sc.append(hc.scen("chain70_stop_t1", T(2, [1, 1], [6, 6, 6], P=4, K=0, H=3, C=70, S=2), T=2, ck=3, p=1, j=2, deadline=dl, budget=B))
    # ... including timestamp-0 ones (chain started by LP_INIT), with RootsimStop while they are queued
    sc.append(hc.scen("chain200_t0_stop", T(2, [6, 0], [1, 1, 6], P=4, K=0, H=3, C=200, S=1), T=1, ck=3, p=0, j=1, deadline=dl, budget=B))
    sc.append(hc.scen("chain30_t0_stop", T(2, [6, 0], [1, 1, 6], P=4, K=0, H=3, C=30, S=1), T=1, ck=3, p=0, j=1, deadline=dl, budget=B))
    sc.append(hc.scen("chain100_t0_stop_T2", T(2, [6, 6], [1, 1, 6], P=4, K=0, H=3, C=100, S=1), T=2, ck=3, p=(0 if tier == "quick" else 1), j=2, deadline=dl, budget=B))
    if tier != "quick":
        for i, m in enumerate(BASE):
            sc.append(hc.scen(f"f{i}_p2", m, T=2, ck=2, p=2, fine="gvt", j=16, deadline=2400, budget=B))
        sc.append(hc.scen("stop_ext_p2", T(2, [2, 1], [2, 1, 2], P=4, K=0, H=6), T=2, ck=2, p=2, fine="gvt", j=16, deadline=2400, budget=B,
                          extra=["xstop=4"]))
    return sc


def scenarios_ranks(tier):
    """shutdown across ranks: node barrier, termination and GVT control messages between ranks, delivery deviations"""
    dl = 600 if tier == "quick" else 1500
    B = 40000
    sc = [hc.scen("r2x1_pred", T(2, [2, 1], [2, 1, 2], P=0, K=3, H=6), T=1, ck=2, p=1, d=1, j=4, deadline=dl, budget=B),
          hc.scen("r2x2_pred", T(4, [2, 1, 2, 1], [2, 1, 2], P=0, K=2, H=3), T=2, ck=2, p=1, d=0, j=4, deadline=dl, budget=B),
          hc.scen("r2x1_stop", T(2, [2, 1], [2, 1, 2], P=4, K=0, H=8, S=3), T=1, ck=2, p=1, d=1, j=4, deadline=dl, budget=B)]
    # a long run stopped early: the stop has to end every rank promptly, not at the exhaustion of the events (finite models hide a
    # stop that never takes effect); default schedule plus one delivery deviation
    LONG = 2000000
    sc += [hc.scen("r2x1_stop_long", T(2, [2, 1], [2, 1, 2], P=4, K=0, H=900, S=3), T=1, ck=3, p=0, d=1, j=4, deadline=dl, budget=LONG,
                   extra=["stopprompt=400", "--max-exec", "60"])]
    if tier != "quick":
        sc += [hc.scen("r2x2_pred_d1", T(4, [2, 1, 2, 1], [2, 1, 2], P=0, K=2, H=3), T=2, ck=2, p=1, d=1, j=16, deadline=2400, budget=B),
               hc.scen("r2x1_pred_d2", T(2, [2, 1], [2, 1, 2], P=0, K=3, H=6), T=1, ck=2, p=1, d=2, j=8, deadline=dl, budget=B),
               hc.scen("r2x2_stop", T(4, [2, 1, 2, 1], [2, 1, 2], P=4, K=0, H=5, S=2), T=2, ck=2, p=1, d=1, j=16, deadline=2400, budget=B),
               hc.scen("r2x1_time", T(2, [1, 2], [2, 1, 7], P=4, K=0, H=6), T=1, ck=2, tt=3, p=2, d=1, j=8, deadline=dl, budget=B)]
    return sc


def run(tier, seed):
    t0 = time.time()
    d = vc.fresh_dir(PID)
    import os
    binary = hc.build(os.path.join(d, "r1"))
    reps, m, viol = vc.rsched_scenarios(PID, "h_run", binary, scenarios(tier), d, workers=6)
    b2 = hc.build(os.path.join(d, "r2"), ranks=2)
    reps2, m2, viol2 = vc.rsched_scenarios(PID, "h_run2", b2, scenarios_ranks(tier), d, workers=4)
    reps += reps2
    viol += viol2
    m = vc.merge_rsched(reps)
    for k in ("ended_by_predicate", "ended_by_time", "ended_by_stop"):
        if hc.counters_nz(m, k) == 0:
            raise vc.EngineError(f"vacuous: no execution '{k}'")
    # module level, liveness direction: the termination module must vote when every LP is terminated below the reported GVT
    from checks import c07
    srep = vc.run_seqx(c07.build_sterm(d), [5 if tier == "quick" else 6, "live"], timeout=3000,
                       env_extra={"SX_DEADLINE": "300" if tier == "quick" else "2400"})
    stot, sviol = vc.seqx_collect(PID, "term-live", [srep])
    if not sviol and stot["states"] < 1000:
        raise vc.EngineError("vacuous: the termination-module enumeration hardly ever reached a state in which a vote is due")
    viol += sviol
    n = vc.triage(PID, viol)
    cov = hc.coverage_from(m, reps, "termination_checked",
                           "as C01/C04 with the atomics of gvt.c, termination.c, parallel.c (and sync.c) as scheduling points; endings by "
                           "predicate, by termination time, by exhaustion and by RootsimStop (from a handler, from an external thread that "
                           "calls it after k of its own scheduling points, k in a grid, placed by the explorer); same-timestamp chains of 70 "
                           "and 100 events (more than the 64 process_msg calls of one loop iteration, also at timestamp 0) so that messages "
                           "are still queued at shutdown; GVT period 0 and 'never without a clock jump'; oracle L: every execution ends with "
                           "all threads exited and RootsimRun returned (deadlock = every live thread parked/blocked, confirmed twice; "
                           "livelock = step/choice-point budget of 40k exhausted), LP_FINI exactly once per LP; non-trivial = execution that returned "
                           "and was checked")
    cov["termination_module_sequences"] = {"evaluations": stot["evaluations"], "vote_due_cases": stot["states"], "depth": srep.get("depth"),
                                           "exhaustive": srep.get("exhaustive"), "samples": stot["samples"][:2]}
    cov["evaluations"] += stot["evaluations"]
    cov["rule"] += ("; plus s_term in mode live: every sequence of <= %s calls of the termination module for 2 LPs (as in C07) against a boring "
                    "reference of its own rule - terminated at LP_INIT for good, or since a true event at T until a rollback at a time <= T; "
                    "at every GVT report above every termination time ever declared with all LPs terminated the thread must vote"
                    % srep.get("depth"))
    vc.write_evidence(PID, tier, "model_checking", cov,
                      ["liveness is decided as 'terminates under the fair default continuation after <= p non-default decisions within the "
                       "step budget'; unbounded unfair schedules are out of scope",
                       "<= 2 ranks x 2 threads for the distributed shutdown (node barrier, control messages between ranks)"],
                      time.time() - t0, n, seed)
    return 1 if n else 0


def replay(path):
    d = vc.fresh_dir(PID + "_replay")
    if path.endswith(".json"):
        import json
        r = json.load(open(path))
        rep = vc.run_seqx(c07.build_sterm(d), r["args"])
        hit = [v for v in rep["violations"] if v["signature"] == r["signature"]]
        print(json.dumps(hit[:1] or "not reproduced", indent=1))
        return 1 if hit else 0
    ranks = 2 if "h_run2" in path or "r2x" in path else 1
    return vc.rsched_replay(hc.build(d, ranks=ranks), path)
