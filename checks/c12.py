"""C12 - rollbackable allocator returns valid, disjoint, stable blocks (s_alloc)."""
import json
import os
import time
from lib import vcommon as vc
from checks import alloc_common as ac

PID = "C12"
SMALL = (6, 3)  # 8 leaves of 8 bytes: smallest instance the header's layout assertions admit


def build(d):
    return {"small": ac.build_variant(d, "sa_small", "harness/s_alloc.c", small=SMALL),
            "small16": ac.build_variant(d, "sa_small16", "harness/s_alloc.c", small=(7, 3)),
            "prod": ac.build_variant(d, "sa_prod", "harness/s_alloc.c")}


def plan(tier, b):
    jobs = []
    jobs.append((b["small"], ["bfs", 1, 0]))
    jobs.append((b["small"], ["bfs", 2, 0]))
    jobs.append((b["small"], ["bfs", 2, 1]))
    # three arenas, every placement order of the arenas in the address space, growth-oriented alphabet
    for perm in range(6):
        jobs.append((b["small"], ["dfs", 6 if tier == "quick" else 8, 2, 0, 1, perm, 3]))
    if tier == "quick":
        for s in range(16):
            jobs.append((b["prod"], ["dfs", 4, 0, s, 16]))
    else:
        jobs.append((b["small16"], ["bfs", 1, 0]))
        for s in range(32):
            jobs.append((b["prod"], ["dfs", 5, 1, s, 32]))
        for s in range(16):
            jobs.append((b["prod"], ["dfs", 4, 0, s, 16]))
    return jobs


def run(tier, seed):
    t0 = time.time()
    d = vc.fresh_dir(PID)
    b = build(d)
    dl = {"SX_DEADLINE": "240" if tier == "quick" else "2400"}
    reps = vc.run_parallel([(lambda x=x, a=a: vc.run_seqx(x, a, timeout=3600, env_extra=dl)) for x, a in plan(tier, b)])
    tot, viol = vc.seqx_collect(PID, "alloc", reps)
    bfs1 = [r for r in reps if r.get("mode") == "bfs" and r.get("max_arenas") == 1 and r.get("arena_bytes") == 64]
    if not viol and (not bfs1 or bfs1[0]["states"] != 678):
        raise vc.EngineError("self-check failed: an 8-leaf arena must have 677 reachable shapes (+ the empty state)")
    n = vc.triage(PID, viol)
    cov = dict(tot)
    cov["samples"] = tot["samples"][:8]
    cov["traces_validated_against_impl"] = tot["evaluations"]
    cov["exhaustive"] = tot["exhaustive"]
    cov["runs"] = [{"args": r["args"], "mode": r.get("mode"), "arena_bytes": r.get("arena_bytes"), "states": r.get("states"),
                    "transitions": r.get("transitions"), "exhaustive": r.get("exhaustive")} for r in reps][:12]
    cov["rule"] = ("bfs: every operation {malloc/calloc every order exact and rounded, 0, over-size; free(j); realloc(j, every size)} "
                   "from every reachable state of 1-2 scaled-down arenas (8 leaves; thorough also 16 leaves), states keyed by the "
                   "allocation trees in address order; dfs: every operation sequence up to the stated depth on the production "
                   "constants (sizes 0,1,63,64,65,4096,32768,32769,65536,65537,2^63+1; checkpoints/restores interleaved) and on three "
                   "small arenas in all 6 address orders; non-trivial = step taken with >1 live block, >1 arena or a checkpoint")
    vc.write_evidence(PID, tier, "model_checking", cov,
                      ["scaled-down arenas use the guarded constants override in buddy.h (same code, smaller tree)",
                       "arena addresses are handed out by the harness (all relative orders of <=3 arenas)"],
                      time.time() - t0, n, seed)
    return 1 if n else 0


def replay(path):
    r = json.load(open(path))
    d = vc.fresh_dir(PID + "_replay")
    b = build(d)
    which = "prod" if "65536" in json.dumps(r.get("case", "")) or r["args"][0] == "dfs" and len(r["args"]) < 7 else "small"
    rep = vc.run_seqx(b[which], r["args"])
    hit = [v for v in rep["violations"] if v["signature"] == r["signature"]]
    print(json.dumps(hit[:1] or "not reproduced", indent=1))
    return 1 if hit else 0
