"""C14 - one owner per LP, routing agrees: real lp_global_init/lp_init/lp_fini + lid_to_nid/lid_to_rid on every triple."""
import json
import os
import subprocess
import time
from lib import vcommon as vc

PID = "C14"


def build(d):
    flags = list(vc.BASE_FLAGS) + ["-w", "-I" + vc.SRC, "-I" + os.path.join(vc.VERIF, "harness"), '-DROOTSIM_VERSION="v"']
    out = os.path.join(d, "s_part")
    p = subprocess.run(["gcc"] + flags + [os.path.join(vc.VERIF, "harness/s_part.c"), os.path.join(vc.SRC, "lp/lp.c"),
                                          os.path.join(vc.SRC, "core/core.c"), "-o", out], capture_output=True, text=True)
    if p.returncode:
        raise vc.EngineError(p.stderr[-2000:])
    return out


def run(tier, seed):
    t0 = time.time()
    d = vc.fresh_dir(PID)
    b = build(d)
    args = [700, 16, 16, 1] if tier == "quick" else [1500, 24, 24, 1]   # quick = the former thorough bound
    reps = [vc.run_seqx(b, args, timeout=3000)]
    tot, viol = vc.seqx_collect(PID, "part", reps)
    if tot["evaluations"] < 5000:
        raise vc.EngineError("vacuous: too few triples")
    n = vc.triage(PID, viol)
    cov = dict(tot)
    cov["rule"] = ("every (LPs, ranks, threads) with ranks <= LPs <= %d, ranks <= %d, threads <= %d through the real lp_global_init() per rank "
                   "and lp_init()/lp_fini() per thread with per-LP callbacks stubbed, routing macros checked for every LP; plus rank-level "
                   "partition+routing for LP counts around 2^16 and primes, and the full thread-level check for 22 large LP counts (2^16, 2^17, 2^18, 2^19, 2^20 +-1, primes up to 2 000 003) x 11 thread counts x 1-2 ranks; non-trivial = LPs not divisible by ranks, or per-rank LPs not "
                   "divisible by threads" % tuple(args[:3]))
    vc.write_evidence(PID, tier, "model_checking", cov, ["ranks without any LP (ranks > LPs) are outside the property's domain",
                                                         "per-LP init work is stubbed; only ownership and routing are observed"],
                      time.time() - t0, n, seed)
    return 1 if n else 0


def replay(path):
    r = json.load(open(path))
    d = vc.fresh_dir(PID + "_replay")
    rep = vc.run_seqx(build(d), r["args"])
    hit = [v for v in rep["violations"] if v["signature"] == r["signature"]]
    print(json.dumps(hit[:1] or "not reproduced", indent=1))
    return 1 if hit else 0
