"""C13 - fossil collection keeps what rollbacks need: real fossil_lp_collect + model_allocator_fossil_lp_collect (s_fossil), and the
real process_msg()/fossil_on_gvt() under every delivery order and legal GVT announcement (h_proc)."""
import json
import time
from lib import vcommon as vc
from checks import alloc_common as ac
from checks import hrun_common as hc

PID = "C13"


def build(d, san=False):
    return {"small": ac.build_variant(d, "sf_small", "harness/s_fossil.c", small=(6, 3), san=san, extra_core=["gvt/fossil.c"]),
            "prod": ac.build_variant(d, "sf_prod", "harness/s_fossil.c", san=san, extra_core=["gvt/fossil.c"])}


def plan(tier, b):
    jobs = []
    if tier == "quick":
        jobs += [(b["small"], [4, s, 16, 4]) for s in range(16)]
        jobs += [(b["prod"], [3, 0, 1, 3])]
    else:
        jobs += [(b["small"], [5, s, 64, 5]) for s in range(64)]
        jobs += [(b["prod"], [4, s, 8, 4]) for s in range(8)]
    return jobs


def run(tier, seed):
    t0 = time.time()
    d = vc.fresh_dir(PID)
    b = build(d)
    dl = {"SX_DEADLINE": "200" if tier == "quick" else "2400"}
    reps = vc.run_parallel([(lambda x=x, a=a: vc.run_seqx(x, a, timeout=3600, env_extra=dl)) for x, a in plan(tier, b)])
    tot, viol = vc.seqx_collect(PID, "fossil", reps)
    preps, pm, pviol = hc.proc_part(PID, d, tier)
    viol += pviol
    if not viol and (tot["distinct_nontrivial"] < 1000 or tot["transitions"] < 1000):
        raise vc.EngineError("vacuous: hardly any collection that released entries / rollback after collection")
    n = vc.triage(PID, viol)
    cov = dict(tot)
    cov["samples"] = tot["samples"][:6]
    cov["states"] = tot["evaluations"]
    cov["evaluations"] = tot["evaluations"] + pm["executions"]
    cov["states"] = tot["evaluations"] + pm["new_choice_points"]
    cov["transitions"] = tot["transitions"] + hc.counters_sum(pm, "steps")
    cov["traces_validated_against_impl"] = tot["evaluations"] + pm["executions"]
    cov["distinct_nontrivial"] = tot["distinct_nontrivial"] + hc.counters_nz(pm, "rollbacks_after_fossil")
    cov["h_proc"] = hc.proc_summary(pm, preps)
    cov["exhaustive"] = bool(cov.get("exhaustive", True)) and pm["exhaustive"]
    cov["rule"] = ("every history of <= n events (timestamp increments in {0,1}: ties; 0-2 sent entries per event, local/remote; history "
                   "laid out as lp/process.c does) x checkpoint interval 1..c x GVT in steps of 0.5 from 0 to beyond the last timestamp x "
                   "legal rollback target (or none) x second GVT; states = scenarios; transitions = collections that committed something; "
                   "non-trivial = scenario with a rollback performed after a collection. " + hc.PROC_RULE +
                   "; there non-trivial = execution with a rollback after a fossil collection of that LP")
    vc.write_evidence(PID, tier, "model_checking", cov,
                      ["s_fossil: rollback/coast-forward driver replicates do_rollback()/silent_execution() of lp/process.c (static there); "
                       "h_proc runs the real ones (match_straggler_msg, match_anti_msg, do_rollback, silent_execution) on the shortened history",
                       "h_proc: local messages only (remote anti-messages are covered by the 2-rank h_run scenarios of C02/C03/C06); models of the "
                       "vmodel grammar with 2-3 LPs and horizon 2-4; allocator layout is not part of the state digest",
                       "event handlers are a fixed 4-step allocator program so that every position has a distinct state"],
                      time.time() - t0, n, seed)
    return 1 if n else 0


def replay(path):
    if hc.is_proc_replay(path):
        return vc.rsched_replay(hc.build_proc(vc.fresh_dir(PID + "_replay")), path)
    r = json.load(open(path))
    d = vc.fresh_dir(PID + "_replay")
    b = build(d)
    rep = vc.run_seqx(b["small"], r["args"])
    hit = [v for v in rep["violations"] if v["signature"] == r["signature"]]
    print(json.dumps(hit[:1] or "not reproduced", indent=1))
    return 1 if hit else 0
