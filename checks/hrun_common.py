"""Build of the whole-runtime harness h_run: all core objects with the hook header, cross-TU calls of interest
redirected to the harness's vw_* wrappers by renaming the undefined symbol in the CALLER's object."""
import os
import subprocess
from lib import vcommon as vc

WRAPS = {
    "parallel/parallel.c": ["gvt_phase_run", "process_msg", "mpi_remote_msg_handle", "gvt_msg_drain", "stats_on_gvt", "msg_allocator_on_gvt"],
    "lp/process.c": ["msg_queue_insert", "msg_queue_extract", "msg_allocator_alloc", "msg_allocator_free",
                     "model_allocator_checkpoint_take", "model_allocator_checkpoint_restore", "termination_on_lp_rollback",
                     "termination_on_msg_process", "fossil_lp_collect", "stats_take", "msg_allocator_free_at_gvt",
                     "mpi_remote_msg_send", "mpi_remote_anti_msg_send"],
    "distributed/mpi.c": ["msg_queue_insert", "msg_allocator_alloc"],
    "gvt/fossil.c": ["msg_allocator_free"],
    "datatypes/msg_queue.c": ["msg_allocator_free=vw_qfini_msg_allocator_free"],
    "lp/lp.c": ["process_lp_fini", "process_lp_init"],
}
MODEL_SRC = ["model/vmodel.c", "model/refexec.c", "model/coreenv.c"]


REF_RENAMES = ["random_lib_lp_init", "RandomU64", "Random", "Poisson", "Normal", "Gamma", "Zipf", "RandomRange", "current_lp", "global_config"]


def build(d, san=False, harness="harness/h_run.c", name=None, ranks=1, race=False):
    """Whole runtime in `ranks` symbol-renamed copies (prefix r<k>_) linked into one binary with the harness."""
    name = name or f"h_run{ranks}"
    srcs = [s for s in vc.core_sources() if s != "arch/thread.c"]
    # race builds: -fsanitize=thread for its access call-backs only; engine/tsanpts.c defines the run time entry points
    core = vc.build_core(d, files=srcs, san=san, hook=True, extra=["-w"] + (["-fsanitize=thread"] if race else []))
    for src, obj in zip(srcs, core):
        syms = WRAPS.get(src)
        if not syms:
            continue
        # the wrapped symbol must be an undefined reference of this object, else the wrapper would be silently bypassed
        nm = subprocess.run(["nm", "-u", obj], capture_output=True, text=True).stdout.split()
        args = []
        for s in syms:
            s, _, target = s.partition("=")
            if s not in nm:
                raise vc.EngineError(f"cannot observe {s}: {src} no longer calls it across translation units")
            args += ["--redefine-sym", f"{s}={target or 'vw_' + s}"]
        p = subprocess.run(["objcopy"] + args + [obj], capture_output=True, text=True)
        if p.returncode:
            raise vc.EngineError("objcopy failed: " + p.stderr)
    allo = os.path.join(d, "core_all.o")
    p = subprocess.run(["ld", "-r", "-o", allo] + core, capture_output=True, text=True)
    if p.returncode:
        raise vc.EngineError("ld -r failed: " + p.stderr[-1500:])
    nm = subprocess.run(["nm", "-g", "--defined-only", allo], capture_output=True, text=True).stdout.splitlines()
    defined = sorted({l.split()[-1] for l in nm if len(l.split()) >= 3})
    rank_objs = []
    for k in range(ranks):
        mp = os.path.join(d, f"rank{k}.map")
        open(mp, "w").write("".join(f"{s} r{k}_{s}\n" for s in defined))
        ro = os.path.join(d, f"rank{k}.o")
        p = subprocess.run(["objcopy", f"--redefine-syms={mp}", allo, ro], capture_output=True, text=True)
        if p.returncode:
            raise vc.EngineError("objcopy rank copy failed: " + p.stderr[-1500:])
        rank_objs.append(ro)
    common = ["-w", "-I" + os.path.join(vc.VERIF, "harness"), f"-DNRANKS={ranks}"]
    objs = vc.build_objs(d, [harness, "engine/rsched.c", "engine/plat.c", "engine/fakempi/fakempi.c", "model/vmodel.c", "model/coreenv.c"]
                         + (["engine/tsanpts.c"] if race else []), san=san, extra=common)
    objs += vc.build_objs(d, ["model/refexec.c"], san=san, extra=common + [f"-D{s}=r0_{s}" for s in REF_RENAMES])
    return vc.link(os.path.join(d, name), objs + rank_objs, san=san)


def scen(name, model, T=2, ck=1, gp=0, tt=0, p=1, d=0, fine="none", oracle="all", j=2, deadline=600, extra=(), budget=None):
    a = ["-p", str(p), "-d", str(d), "-j", str(j), "--deadline", str(deadline), f"m={model}", f"T={T}", f"ck={ck}", f"gp={gp}",
         f"tt={tt}", f"fine={fine}", f"oracle={oracle}"] + list(extra)
    if budget:
        a += ["--budget", str(budget)]
    return (name, a)


def counters_nz(m, key):
    return m["counters"].get(key, [0, 0])[1]


def counters_sum(m, key):
    return m["counters"].get(key, [0, 0])[0]


def coverage_from(m, reps, nontrivial_key, rule):
    return {
        "states": m["new_choice_points"], "transitions": m["steps"], "traces_validated_against_impl": m["executions"],
        "evaluations": m["executions"], "distinct_nontrivial": counters_nz(m, nontrivial_key), "rule": rule,
        "samples": m["samples"][:5], "exhaustive": m["exhaustive"], "deadline_hit": m["deadline_hit"],
        "scenarios_run": len(reps), "scenarios": vc.scenario_table(reps)[:10], "counters": m["counters"],
        "distinct_outcomes": m["distinct_outcomes"], "max_choice_points_per_execution": m["max_points"],
    }


PROC_WRAPS = {
    "lp/process.c": ["msg_queue_insert", "msg_queue_extract", "msg_allocator_alloc", "msg_allocator_free",
                     "model_allocator_checkpoint_restore", "fossil_lp_collect", "gvt_on_msg_extraction",
                     "mpi_remote_msg_send", "mpi_remote_anti_msg_send", "msg_allocator_free_at_gvt"],
    "gvt/fossil.c": ["msg_allocator_free=vw_fossil_msg_allocator_free"],
    "lp/lp.c": ["process_lp_init"],
    "distributed/mpi.c": ["msg_queue_insert=vw_mpi_msg_queue_insert", "msg_allocator_alloc"],
}


def apply_wraps(srcs, core, wraps):
    for src, obj in zip(srcs, core):
        syms = wraps.get(src)
        if not syms:
            continue
        nm = subprocess.run(["nm", "-u", obj], capture_output=True, text=True).stdout.split()
        args = []
        for s in syms:
            s, _, target = s.partition("=")
            if s not in nm:
                raise vc.EngineError(f"cannot observe {s}: {src} no longer calls it across translation units")
            args += ["--redefine-sym", f"{s}={target or 'vw_' + s}"]
        p = subprocess.run(["objcopy"] + args + [obj], capture_output=True, text=True)
        if p.returncode:
            raise vc.EngineError("objcopy failed: " + p.stderr)


def build_proc(d, san=False, name="h_proc", remote=False):
    """h_proc: the real process.c / msg_queue.c / fossil.c / allocators driven step by step from one scheduler thread (no
    hooks on atomics: there is one thread); the calls the harness observes are redirected in the caller's object.
    remote=True: the real distributed/mpi.c instead of no_mpi.c, against the MPI functions h_proc.c defines (wire pool)."""
    if remote:
        srcs = [s for s in vc.core_sources() if s != "arch/thread.c"]
    else:
        srcs = [s for s in vc.core_sources() if s not in ("arch/thread.c", "distributed/mpi.c")] + ["distributed/no_mpi.c"]
    core = vc.build_core(d, files=srcs, san=san, hook=False, extra=["-w"])
    apply_wraps(srcs, core, PROC_WRAPS)
    objs = vc.build_objs(d, ["harness/h_proc.c", "engine/rsched.c"] + MODEL_SRC, san=san,
                         extra=["-w", "-I" + os.path.join(vc.VERIF, "harness")] + (["-DHPROC_REMOTE"] if remote else []))
    return vc.link(os.path.join(d, name), objs + core, san=san)


def pscen(name, model, ck=1, glow=0, deadline=300, j=4, maxexec=None, maxg=None):
    a = ["--stateful", "-j", str(j), "--deadline", str(deadline), f"m={model}", f"ck={ck}", f"glow={glow}"]
    if maxg is not None:
        a += [f"maxg={maxg}"]
    if maxexec:
        a += ["--max-exec", str(maxexec)]
    return ("px_" + name, a)


def _pm(L, I, R, H, M=0, G=0, C=2):
    from lib import models
    return models.text(L, I, R, P=5, K=100, M=M, G=G, H=H, C=C)


def proc_scenarios(tier, part="all"):
    """h_proc scenario list.  Quick: models whose complete state space (every delivery order x every legal GVT announcement)
    is enumerated in seconds.  Thorough: the same with lower GVT values too, plus larger models under a deadline."""
    A = _pm(2, [1, 2], [2, 1, 7], 3)
    if part == "acct":
        # cancellation cascades: an anti-message whose rollback cancels a message a third LP has already processed (two tokens on a
        # 3-ring, the first hop of one held back; two same-time events for one LP arriving in the wrong order).  maxg=0: no GVT
        # announcements - they do not matter for the accounting contract and multiply the states by 30
        ring = _pm(3, [2, 0, 2], [0, 0, 2], 4)
        twice = _pm(3, [8, 0, 0], [2, 0, 0], 2)
        sc = [pscen("ring_nog", ring, ck=1, maxg=0, deadline=240, j=2), pscen("twice_nog", twice, ck=1, maxg=0, deadline=240, j=4),
              pscen("a_ck1", A, ck=1, deadline=240, j=2), pscen("b3_ck1", _pm(3, [7, 0, 1], [7, 2, 1], 3), ck=1, deadline=240, j=2)]
        if tier != "quick":
            sc += [pscen("ring_gvt", ring, ck=2, deadline=900, j=8), pscen("twice_gvt", twice, ck=1, deadline=900, j=8),
                   pscen("zero2_nog", _pm(3, [3, 3, 0], [3, 3, 3], 1), ck=1, maxg=0, deadline=900, j=8),
                   pscen("ring_H5_nog", _pm(3, [2, 2, 2], [0, 0, 2], 4), ck=2, maxg=0, deadline=900, j=8)]
        return sc
    if part == "remote":
        # rm=1: LPs spread over 2 nodes (2 LPs: one each; 3 LPs: LP0, LP1 | LP2), remote events and remote anti-messages on a wire pool
        # delivered in every order (anti-messages overtaking their events, several early anti-messages pending on one LP)
        rs = [("r_a_ck1", A, 1, 0), ("r_a_ck3", A, 3, 0), ("r_b3_ck2", _pm(3, [7, 0, 1], [7, 2, 1], 3), 2, 0),
              ("r_ties_ck1", _pm(2, [5, 1], [1, 5, 2], 2), 1, 0), ("r_tiebig", _pm(2, [9, 9], [9, 2, 9], 1), 1, 0),
              ("r_zero_ck2", _pm(2, [3, 1], [2, 3, 1], 3), 2, 0), ("r_fan_ck1", _pm(2, [7, 1], [1, 7, 2], 2), 1, 0),
              ("r_mem_ck2", _pm(2, [1, 2], [2, 1, 7], 3, M=1), 2, 0)]
        sc = [pscen(n, m, ck=ck, glow=gl, deadline=240, j=2) for (n, m, ck, gl) in rs]
        # two remote events for one LP sent by one call and undone together: two early anti-messages pending on one LP, matched in
        # either order (the list handling of check_early_anti_messages); large state space, explored under a deadline (not closed)
        twice = _pm(2, [8, 1], [1, 2, 8], 1)
        sc.append(pscen("r_twice_nog", twice, ck=1, maxg=0, deadline=60 if tier == "quick" else 300, j=4 if tier == "quick" else 8))
        if tier != "quick":
            rb = [("r_a_H4_ck2", _pm(2, [1, 2], [2, 1, 7], 4), 2, 1), ("r_b3_H4", _pm(3, [7, 0, 1], [7, 2, 1], 4), 1, 0),
                  ("r_ring", _pm(3, [2, 0, 2], [0, 0, 2], 4), 1, 0), ("r_ties_H3", _pm(2, [5, 1], [1, 5, 2], 3), 2, 0)]
            sc = [pscen(n, m, ck=ck, glow=1, deadline=600, j=4) for (n, m, ck, gl) in rs] + sc[-1:]
            sc += [pscen(n, m, ck=ck, glow=gl, deadline=300, j=8) for (n, m, ck, gl) in rb]
        return [(n, a + ["rm=1"]) for (n, a) in sc]
    small = [
        ("a_ck1", A, 1, 0), ("a_ck2", A, 2, 0), ("a_ck3", A, 3, 0), ("a_ck1_glow", A, 1, 1),
        ("b3_ck1", _pm(3, [7, 0, 1], [7, 2, 1], 3), 1, 0),
        ("c_mem_ck1", _pm(2, [1, 2], [2, 1, 7], 3, M=1), 1, 0), ("c_mem_ck2", _pm(2, [1, 2], [2, 1, 7], 3, M=1), 2, 0),
        ("d_zero_ck1", _pm(2, [3, 1], [2, 3, 1], 3), 1, 0), ("d_zero_ck2", _pm(2, [3, 1], [2, 3, 1], 3), 2, 1),
        ("e_mem3_ck1", _pm(3, [4, 2, 1], [4, 2, 1], 3, M=2), 1, 0),
        ("f_rng_ck4", _pm(2, [2, 1], [1, 2, 2], 3, G=2), 4, 0), ("f_rng_ck2", _pm(2, [2, 1], [1, 2, 2], 3, G=2), 2, 1),
        ("g_ties_ck1", _pm(2, [5, 1], [1, 5, 2], 2), 1, 0), ("g_ties_ck2", _pm(2, [5, 1], [1, 5, 2], 2), 2, 1),
        ("h_tiebig", _pm(2, [9, 9], [9, 2, 9], 1), 1, 0), ("i_chain", _pm(2, [6, 2], [2, 6, 1], 3), 2, 0),
    ]
    sc = [pscen(n, m, ck=ck, glow=gl, deadline=240, j=2) for (n, m, ck, gl) in small]
    if tier != "quick" and part == "small":
        sc = [pscen(n, m, ck=ck, glow=1, deadline=600, j=4) for (n, m, ck, gl) in small]
    elif tier != "quick":
        big = [
            ("a_H4_ck1", _pm(2, [1, 2], [2, 1, 7], 4), 1, 0), ("a_H4_ck2", _pm(2, [1, 2], [2, 1, 7], 4), 2, 1),
            ("b3_H4", _pm(3, [7, 0, 1], [7, 2, 1], 4), 2, 0),
            ("ties_H3", _pm(2, [5, 1], [1, 5, 2], 3), 2, 0), ("t0twice_H2", _pm(2, [8, 1], [1, 2, 8], 2), 1, 0),
            ("tiebig_H2", _pm(2, [9, 9], [9, 2, 9], 2), 1, 0), ("c_mem_H4", _pm(2, [1, 2], [2, 1, 7], 4, M=1), 3, 0),
            ("d_zero_H4", _pm(2, [3, 1], [2, 3, 1], 4), 1, 1), ("chain_H3", _pm(2, [6, 2], [2, 6, 1], 3, C=2), 2, 0),
        ]
        sc = [pscen(n, m, ck=ck, glow=1, deadline=600, j=4) for (n, m, ck, gl) in small]
        sc += [pscen(n, m, ck=ck, glow=gl, deadline=900, j=8) for (n, m, ck, gl) in big]
    return sc


PROC_RULE = ("h_proc part: one scheduler thread drives the real process_msg()/ScheduleNewEvent()/fossil_on_gvt() with every LP treated as a "
             "worker of its own: every message sent to another LP (and every anti-message re-insertion) is held in flight and the stateful "
             "search enumerates EVERY order of deliveries and process_msg() calls and every legal GVT announcement (g = minimum over in-flight and "
             "queued timestamps, optionally minimum-1) up to equality of the complete state (histories with flags, LP states, checkpoint "
             "positions, in-flight and queued multisets, GVT); oracles after every step: history order, state = forward state of the last "
             "history entry, released entries < GVT and equal to the sequential per-LP sequence incl. state hashes, message life cycle; at "
             "quiescence history and end state = sequential execution")


def proc_part(pid, d, tier, san=False, part="all"):
    """Builds h_proc from /repo's working tree and runs its scenarios; returns (reports, merged, violations)."""
    b = build_proc(os.path.join(d, "proc"), san=san)
    reps, m, viol = vc.rsched_scenarios(pid, "h_proc", b, proc_scenarios(tier, part), d, workers=6 if tier == "quick" else (4 if part == "small" else 2))
    if not viol:
        need = ("rollbacks", "rollbacks_after_fossil", "rollbacks_to_kept_checkpoint", "anti_messages_delivered", "commits_checked",
                "quiescent_ends", "silent_executions") if part != "acct" else \
               ("rollbacks", "anti_messages_delivered", "anti_cascade", "sends_accounting_checked", "quiescent_ends")
        for k in need:
            if counters_nz(m, k) == 0:
                raise vc.EngineError(f"vacuous: h_proc never saw '{k}'")
        # quick scenarios are sized to be enumerated completely in seconds; on an overloaded machine one may still hit its deadline:
        # that is reported in the evidence (exhaustive: false, per scenario), not raised
    return reps, m, viol


PROCR_RULE = ("h_proc remote part (rm=1): the same step function with the LPs spread over 2 nodes by the runtime's own lid_to_nid(); what an LP "
              "sends to the other node goes through the real mpi_remote_msg_send()/mpi_remote_anti_msg_send() (distributed/mpi.c, gvt.h id and "
              "sequence bits) into a wire pool, and a step delivers one wire message through the real mpi_remote_msg_handle() on the destination "
              "node; EVERY order of wire deliveries, local deliveries, process_msg() calls and legal GVT announcements up to complete-state "
              "equality, so remote anti-messages overtake their events (early anti-messages) and meet them processed, queued or rolled back; "
              "additional oracles: a remote anti-message is only sent for a live remote send, no early anti-message is left at quiescence, "
              "MPI_Mrecv buffer >= message size, destination node = node of the destination LP")


def procr_part(pid, d, tier, san=False):
    """h_proc built against the real distributed/mpi.c (remote=True), scenario part 'remote'."""
    b = build_proc(os.path.join(d, "procr"), san=san, name="h_procr", remote=True)
    reps, m, viol = vc.rsched_scenarios(pid, "h_procr", b, proc_scenarios(tier, "remote"), d, workers=6 if tier == "quick" else 3)
    if not viol:
        for k in ("rollbacks", "remote_deliveries", "remote_anti_deliveries", "early_remote_antis", "commits_checked", "quiescent_ends",
                  "rollbacks_after_fossil"):
            if counters_nz(m, k) == 0:
                raise vc.EngineError(f"vacuous: remote h_proc never saw '{k}'")
    return reps, m, viol


def add_procr(cov, pm, preps):
    cov["evaluations"] += pm["executions"]
    cov["traces_validated_against_impl"] += pm["executions"]
    cov["states"] += pm["new_choice_points"]
    cov["transitions"] += counters_sum(pm, "steps")
    cov["rule"] += ". " + PROCR_RULE
    cov["h_proc_remote"] = proc_summary(pm, preps)


def is_procr_replay(path):
    return os.path.basename(path).startswith("px_r_")


def proc_summary(m, reps):
    return {"executions": m["executions"], "states": m["new_choice_points"], "pruned_revisits": m["pruned"], "exhaustive": m["exhaustive"],
            "scenarios": vc.scenario_table(reps), "counters": m["counters"]}


def is_proc_replay(path):
    return os.path.basename(path).startswith("px_")


PROC_ASSUMPTION = ("h_proc part: local messages only, 2-3 LPs, horizon 2-4 (quick: complete state spaces), allocator layout not part of "
                   "the state digest")


def add_proc(cov, pm, preps):
    """Fold the h_proc part into a coverage record built from the h_run part."""
    cov["evaluations"] += pm["executions"]
    cov["traces_validated_against_impl"] += pm["executions"]
    cov["states"] += pm["new_choice_points"]
    cov["transitions"] += counters_sum(pm, "steps")
    cov["rule"] += ". " + PROC_RULE
    cov["h_proc"] = proc_summary(pm, preps)
    cov["exhaustive"] = bool(cov.get("exhaustive")) and pm["exhaustive"]


LIBSTATE_SRCS = ["lib/random/random.c", "lib/random/xxtea.c", "lib/topology/topology.c"]


def build_libstate(d):
    """s_libstate: the model library compiled with -fsanitize=thread only to get a call-back at every memory access (the sanitizer
    run time is NOT linked; the harness defines the __tsan_* entry points and uses them to find and to interleave at hidden state)."""
    d = os.path.join(d, "libstate")
    os.makedirs(d, exist_ok=True)
    base = list(vc.BASE_FLAGS) + ["-w", "-g", "-D" + vc.GUARD, "-I" + vc.SRC, "-I" + os.path.join(vc.VERIF, "harness")]
    objs = []
    for f in LIBSTATE_SRCS:
        o = os.path.join(d, os.path.basename(f)[:-2] + ".o")
        p = subprocess.run(["gcc"] + base + ["-fsanitize=thread", "-c", os.path.join(vc.SRC, f), "-o", o], capture_output=True, text=True)
        if p.returncode:
            raise vc.EngineError(p.stderr[-2000:])
        objs.append(o)
    out = os.path.join(d, "s_libstate")
    p = subprocess.run(["gcc"] + base + [os.path.join(vc.VERIF, "harness/s_libstate.c")] + objs + ["-o", out, "-lm"], capture_output=True, text=True)
    if p.returncode:
        raise vc.EngineError(p.stderr[-2000:])
    return out


def libstate_part(pid, d):
    """Runs s_libstate; returns (report, totals, violations)."""
    rep = vc.run_seqx(build_libstate(d), [], timeout=600)
    tot, viol = vc.seqx_collect(pid, "libstate", [rep])
    if not viol and tot["evaluations"] < 400:
        raise vc.EngineError("vacuous: s_libstate made hardly any injected call")
    return rep, tot, viol


LIBSTATE_RULE = ("s_libstate: 15 library calls (RandomU64, Random, Poisson, Normal, RandomRange x2, RandomRangeNonUniform, Gamma x2, Zipf with "
                 "three skews, GetReceiver(RANDOM) on square/hexagon/graph) x the same 15 as the other LP's call: LP 0's stream of three calls "
                 "with one complete call of LP 1 injected between any two of them and at every access of the library to memory that is "
                 "neither stack, LP context nor argument and that it ever writes (call-backs obtained by compiling the library with "
                 "-fsanitize=thread and defining the __tsan_* entry points in the harness: one preemption inside the call, exhaustively); "
                 "LP 0's results and generator state must be those of its stand-alone stream, LP 1's result that of its own")


RACE_RULE = ("race_* scenarios: the same harness on a build of the core compiled with -fsanitize=thread for its access call-backs only (run "
             "time not linked, engine/tsanpts.c): every plain load/store of static storage that some thread has stored to since the workers "
             "started is a scheduling point too, so the explorer also interleaves the threads inside calls at shared file-scope / "
             "function-level static state")


def race_part(pid, d, tier, models_cfg):
    """models_cfg: [(name, model, T, ck)] run at p=1 (thorough: the first also at p=2) on the race build; returns (reps, merged, viol)."""
    b = build(os.path.join(d, "race"), race=True, name="h_run_race")
    sc = [scen("race_" + n, m, T=t, ck=ck, p=1, j=4, deadline=600) for (n, m, t, ck) in models_cfg]
    if tier != "quick":
        n, m, t, ck = models_cfg[0]
        sc.append(scen("race_" + n + "_p2", m, T=t, ck=ck, p=2, j=16, deadline=1500))
    return vc.rsched_scenarios(pid, "h_run(race build)", b, sc, d, workers=3)


def is_race_replay(path):
    return os.path.basename(path).startswith("race_")
