"""Build of the whole-runtime harness h_run: all core objects with the hook header, cross-TU calls of interest
redirected to the harness's vw_* wrappers by renaming the undefined symbol in the CALLER's object."""
import os
import subprocess
from lib import vcommon as vc

WRAPS = {
    "parallel/parallel.c": ["gvt_phase_run", "process_msg", "mpi_remote_msg_handle", "gvt_msg_drain", "stats_on_gvt", "msg_allocator_on_gvt"],
    "lp/process.c": ["msg_queue_insert", "msg_queue_extract", "msg_allocator_alloc", "msg_allocator_free",
                     "model_allocator_checkpoint_take", "model_allocator_checkpoint_restore", "termination_on_lp_rollback",
                     "termination_on_msg_process", "fossil_lp_collect", "stats_take", "msg_allocator_free_at_gvt",
                     "mpi_remote_msg_send", "mpi_remote_anti_msg_send"],
    "distributed/mpi.c": ["msg_queue_insert", "msg_allocator_alloc"],
    "gvt/fossil.c": ["msg_allocator_free"],
    "datatypes/msg_queue.c": ["msg_allocator_free=vw_qfini_msg_allocator_free"],
    "lp/lp.c": ["process_lp_fini", "process_lp_init"],
}
MODEL_SRC = ["model/vmodel.c", "model/refexec.c", "model/coreenv.c"]


REF_RENAMES = ["random_lib_lp_init", "RandomU64", "Random", "Poisson", "Normal", "Gamma", "Zipf", "RandomRange", "current_lp", "global_config"]


def build(d, san=False, harness="harness/h_run.c", name=None, ranks=1):
    """Whole runtime in `ranks` symbol-renamed copies (prefix r<k>_) linked into one binary with the harness."""
    name = name or f"h_run{ranks}"
    srcs = [s for s in vc.core_sources() if s != "arch/thread.c"]
    core = vc.build_core(d, files=srcs, san=san, hook=True, extra=["-w"])
    for src, obj in zip(srcs, core):
        syms = WRAPS.get(src)
        if not syms:
            continue
        # the wrapped symbol must be an undefined reference of this object, else the wrapper would be silently bypassed
        nm = subprocess.run(["nm", "-u", obj], capture_output=True, text=True).stdout.split()
        args = []
        for s in syms:
            s, _, target = s.partition("=")
            if s not in nm:
                raise vc.EngineError(f"cannot observe {s}: {src} no longer calls it across translation units")
            args += ["--redefine-sym", f"{s}={target or 'vw_' + s}"]
        p = subprocess.run(["objcopy"] + args + [obj], capture_output=True, text=True)
        if p.returncode:
            raise vc.EngineError("objcopy failed: " + p.stderr)
    allo = os.path.join(d, "core_all.o")
    p = subprocess.run(["ld", "-r", "-o", allo] + core, capture_output=True, text=True)
    if p.returncode:
        raise vc.EngineError("ld -r failed: " + p.stderr[-1500:])
    nm = subprocess.run(["nm", "-g", "--defined-only", allo], capture_output=True, text=True).stdout.splitlines()
    defined = sorted({l.split()[-1] for l in nm if len(l.split()) >= 3})
    rank_objs = []
    for k in range(ranks):
        mp = os.path.join(d, f"rank{k}.map")
        open(mp, "w").write("".join(f"{s} r{k}_{s}\n" for s in defined))
        ro = os.path.join(d, f"rank{k}.o")
        p = subprocess.run(["objcopy", f"--redefine-syms={mp}", allo, ro], capture_output=True, text=True)
        if p.returncode:
            raise vc.EngineError("objcopy rank copy failed: " + p.stderr[-1500:])
        rank_objs.append(ro)
    common = ["-w", "-I" + os.path.join(vc.VERIF, "harness"), f"-DNRANKS={ranks}"]
    objs = vc.build_objs(d, [harness, "engine/rsched.c", "engine/plat.c", "engine/fakempi/fakempi.c", "model/vmodel.c", "model/coreenv.c"],
                         san=san, extra=common)
    objs += vc.build_objs(d, ["model/refexec.c"], san=san, extra=common + [f"-D{s}=r0_{s}" for s in REF_RENAMES])
    return vc.link(os.path.join(d, name), objs + rank_objs, san=san)


def scen(name, model, T=2, ck=1, gp=0, tt=0, p=1, d=0, fine="none", oracle="all", j=2, deadline=600, extra=(), budget=None):
    a = ["-p", str(p), "-d", str(d), "-j", str(j), "--deadline", str(deadline), f"m={model}", f"T={T}", f"ck={ck}", f"gp={gp}",
         f"tt={tt}", f"fine={fine}", f"oracle={oracle}"] + list(extra)
    if budget:
        a += ["--budget", str(budget)]
    return (name, a)


def counters_nz(m, key):
    return m["counters"].get(key, [0, 0])[1]


def coverage_from(m, reps, nontrivial_key, rule):
    return {
        "states": m["new_choice_points"], "transitions": m["steps"], "traces_validated_against_impl": m["executions"],
        "evaluations": m["executions"], "distinct_nontrivial": counters_nz(m, nontrivial_key), "rule": rule,
        "samples": m["samples"][:5], "exhaustive": m["exhaustive"], "deadline_hit": m["deadline_hit"],
        "scenarios_run": len(reps), "scenarios": vc.scenario_table(reps)[:10], "counters": m["counters"],
        "distinct_outcomes": m["distinct_outcomes"], "max_choice_points_per_execution": m["max_points"],
    }
