"""C20 - statistics output is well-formed and consistent with what happened (oracle S in h_run: independent reader + occurrence shadow)."""
import os
import subprocess
import time
from lib import vcommon as vc
from lib import models
from checks import hrun_common as hc

PID = "C20"
T = models.text

MODELS = [
    T(2, [1, 2], [2, 1, 7], P=0, K=5, H=6),          # rollbacks, anti-messages, ends by predicate/exhaustion
    T(3, [7, 0, 1], [7, 2, 1], P=5, K=4, H=6),
    T(2, [2, 1], [2, 1, 2], P=5, K=100, H=20),        # many GVT rounds (many records)
    T(2, [5, 1], [1, 5, 2], P=0, K=6, M=1, H=8),
]


def run(tier, seed):
    t0 = time.time()
    d = vc.fresh_dir(PID)
    b1 = hc.build(os.path.join(d, "r1"))
    dl = 600 if tier == "quick" else 1500
    st = os.path.join(d, "stats")
    sc = []
    for i, m in enumerate(MODELS):
        for t in (1, 2, 3):
            for gp in (0, 1):
                if tier == "quick" and (i + t + gp) % 2:
                    continue
                sc.append(hc.scen(f"m{i}_T{t}gp{gp}", m, T=t, ck=2, gp=gp, p=1 if t > 1 else 0, j=2, deadline=dl, extra=[f"stats={st}"]))
        sc.append(hc.scen(f"m{i}_time", m, T=2, ck=2, tt=3, p=1, j=2, deadline=dl, extra=[f"stats={st}"]))
    sc.append(hc.scen("stop_handler", T(2, [2, 1], [2, 1, 2], P=4, K=0, H=20, S=5), T=2, ck=2, p=1, j=2, deadline=dl, extra=[f"stats={st}"]))
    sc.append(hc.scen("stop_ext", T(2, [2, 1], [2, 1, 2], P=4, K=0, H=20), T=2, ck=2, p=1, j=2, deadline=dl, extra=[f"stats={st}", "xstop=15"]))
    if tier != "quick":
        for i, m in enumerate(MODELS):
            sc.append(hc.scen(f"m{i}_p2", m, T=2, ck=2, p=2, j=8, deadline=dl, extra=[f"stats={st}"]))
    reps, m, viol = vc.rsched_scenarios(PID, "h_run", b1, sc, d, workers=8)
    if not viol or all("C20" not in v["signature"] for v in viol):
        for k in ("stats_records_compared", "rollbacks", "anti_messages", "silent_executions"):
            if hc.counters_nz(m, k) == 0:
                raise vc.EngineError(f"vacuous: no execution with '{k}'")
    # second reader: the parser shipped with the project accepts a file produced by the default schedule
    p = subprocess.run([b1, "-p", "0", "-j", "1", f"m={MODELS[0]}", "T=2", "ck=2", f"stats={st}_keep", "keepstats=1", "--out",
                        os.path.join(d, "keep.json"), "--replay-dir", d], capture_output=True, text=True)
    kept = [f for f in os.listdir(d) if f.startswith("stats_keep") and f.endswith(".bin")]
    shipped_ok = None
    if kept:
        code = ("import sys; sys.path.insert(0, %r); import rootsim_stats as r; s = r.RSStats(%r); print(len(s.all_stats))"
                % (os.path.join(vc.SRC, "log/parse"), os.path.join(d, kept[0])))
        q = subprocess.run(["python3", "-c", code], capture_output=True, text=True)
        shipped_ok = q.returncode == 0
        if not shipped_ok:
            viol.append({"signature": "C20 the shipped parser rootsim_stats.py rejects the produced file: " + q.stderr.strip().splitlines()[-1][:200],
                         "replay": os.path.join(d, kept[0])})
    n = vc.triage(PID, viol)
    cov = hc.coverage_from(m, reps, "stats_records_compared",
                           "as C01 with a statistics file requested: 4 models x threads {1,2,3} x GVT period {0, never} x endings {predicate/"
                           "exhaustion, termination time, RootsimStop from a handler and from an external thread} x schedules (p<=1, "
                           "thorough p<=2); after RootsimRun returns, an independent reader of the documented layout parses the file: "
                           "magic, metric names, node count, record-array sizes, equal record counts for the node and each thread, GVT "
                           "column non-decreasing and equal to the values thread 0 was told, and every per-thread record equal to the "
                           "occurrences counted by the wrappers since that thread's previous record (forward executions, rollbacks, undone "
                           "events, silent executions, checkpoints, anti-messages); non-trivial = execution whose records were compared")
    cov["shipped_parser_accepts"] = shipped_ok
    vc.write_evidence(PID, tier, "model_checking", cov,
                      ["time columns are not compared; one rank (the multi-rank file is assembled over blocking MPI sends, not modelled)",
                       "occurrences are counted from the wrapped calls (dispatches, checkpoint_restore/take, history lengths, flag words)"],
                      time.time() - t0, n, seed)
    return 1 if n else 0


def replay(path):
    d = vc.fresh_dir(PID + "_replay")
    return vc.rsched_replay(hc.build(d), path)
