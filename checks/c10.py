"""C10 - the serial runtime implements the reference semantics (s_serial vs refexec on the vmodel grammar)."""
import json
import os
import time
from lib import vcommon as vc
from lib import models

PID = "C10"
MODEL_SRC = ["model/vmodel.c", "model/refexec.c", "model/coreenv.c"]


def build(d, san=False):
    srcs = [s for s in vc.core_sources() if s not in ("arch/thread.c", "distributed/mpi.c")] + ["distributed/no_mpi.c"]
    core = vc.build_core(d, files=srcs, san=san, hook=False, extra=["-w"])
    objs = vc.build_objs(d, ["harness/s_serial.c"] + MODEL_SRC, san=san, extra=["-w", "-I" + os.path.join(vc.VERIF, "harness")])
    return vc.link(os.path.join(d, "s_serial"), objs + core, san=san)


def model_list(tier):
    if tier == "quick":
        ms = models.enumerate_models(Ls=(1, 2, 3), mems=(0, 1), Hs=(4,), limit=30000)
    else:
        ms = models.enumerate_models(Ls=(1, 2, 3), mems=(0, 1), Hs=(4, 6), limit=None)
    return models.FEATURE_MODELS + ms


def run(tier, seed):
    t0 = time.time()
    d = vc.fresh_dir(PID)
    b = build(d)
    ml = model_list(tier)
    lst = os.path.join(d, "models.txt")
    open(lst, "w").write("\n".join(ml) + "\n")
    ns = 16
    dl = {"SX_DEADLINE": "240" if tier == "quick" else "2400"}
    reps = vc.run_parallel([(lambda s=s: vc.run_seqx(b, [lst, s, ns], timeout=3600, env_extra=dl)) for s in range(ns)])
    tot, viol = vc.seqx_collect(PID, "serial", reps)
    if not viol and tot["distinct_nontrivial"] < 100:
        raise vc.EngineError("vacuous: hardly any run with more than 8 events")
    n = vc.triage(PID, viol)
    cov = dict(tot)
    cov["samples"] = tot["samples"][:6]
    cov["programs"] = len(ml)
    cov["states"] = tot["evaluations"]
    cov["traces_validated_against_impl"] = tot["evaluations"]
    cov["rule"] = ("every model of the vmodel grammar in canonical order (%d models: 1-3 LPs x 8 send rules per event type x init rules x "
                   "predicates {count>=K and stop changing, count>=K and continue} x dynamic memory off/on, + %d feature models: fan-out, "
                   "ties, zero-delay, timestamp-0 chains up to 70 links, 40-byte payloads, multi-arena memory, RootsimStop, every library "
                   "distribution) x {gvt_period 0, never} x {no termination time, 3.0}; each (model, configuration) = one run of the real "
                   "serial runtime in a forked child compared dispatch by dispatch with the reference executor; transitions = dispatches; "
                   "non-trivial = run of a model with more than 8 events that ended by exhaustion or predicates"
                   % (len(ml) - len(models.FEATURE_MODELS), len(models.FEATURE_MODELS)))
    vc.write_evidence(PID, tier, "model_checking", cov,
                      ["the reference executor shares the model handler and the tie-break relation (msg_is_before) with the runtime; C16 "
                       "establishes that relation is a content-only strict weak order",
                       "virtual clock: one microsecond per gettimeofday call (gvt_period 0 ticks at every event, 10^9 never)",
                       "per-LP sequences are compared exactly; the global order only for non-decreasing timestamps (content-identical "
                       "events for different LPs are unordered by the relation)"],
                      time.time() - t0, n, seed)
    return 1 if n else 0


def replay(path):
    r = json.load(open(path))
    d = vc.fresh_dir(PID + "_replay")
    b = build(d)
    import re
    m = re.search(r"model '([^']+)'", r.get("case", ""))
    lst = os.path.join(d, "models.txt")
    open(lst, "w").write((m.group(1) if m else "") + "\n")
    rep = vc.run_seqx(b, [lst, 0, 1])
    print(json.dumps(rep["violations"][:2] or "not reproduced", indent=1))
    return 1 if rep["violations"] else 0
