"""Shared helpers of the /verif checks: building the core out of tree with the hook header,
running the explorers, writing evidence, triaging violations against known_findings.json."""
import concurrent.futures as cf
import json
import os
import re
import shutil
import subprocess
import sys
import time

VERIF = os.path.dirname(os.path.dirname(os.path.abspath(__file__)))
REPO = os.environ.get("VERIF_REPO", "/repo")
SRC = os.path.join(REPO, "src")
BUILD = os.path.join(VERIF, "build")
NPROC = int(os.environ.get("VERIF_JOBS", os.cpu_count() or 4))

BASE_FLAGS = ["-O1", "-g", "-std=gnu11", "-D_GNU_SOURCE=", "-DNDEBUG", "-fno-lto"]
SAN_FLAGS = ["-fsanitize=address,undefined", "-fno-sanitize-recover=undefined", "-fno-omit-frame-pointer"]
GUARD = "ROOTSIM_VERIF"


class EngineError(Exception):
    pass


def sh(cmd, **kw):
    return subprocess.run(cmd, **kw)


def core_sources():
    """The list of core sources, parsed from src/CMakeLists.txt (so that files a later edit adds are
    compiled too), MPI variant, without arch/thread.c (replaced by engine/plat.c)."""
    txt = open(os.path.join(SRC, "CMakeLists.txt")).read()
    m = re.search(r"set\(rscore_srcs\s+(.*?)\)", txt, re.S)
    if not m:
        raise EngineError("cannot parse src/CMakeLists.txt")
    srcs = m.group(1).split()
    srcs.append("distributed/mpi.c")
    return [s for s in srcs if s.endswith(".c")]


def compile_many(jobs):
    """jobs: list of (src, obj, flags). Runs gcc in parallel; raises EngineError on failure."""
    def one(j):
        src, obj, flags = j
        os.makedirs(os.path.dirname(obj), exist_ok=True)
        p = sh(["gcc"] + flags + ["-c", src, "-o", obj], capture_output=True, text=True)
        return (src, p.returncode, p.stderr)
    with cf.ThreadPoolExecutor(max_workers=NPROC) as ex:
        res = list(ex.map(one, jobs))
    bad = [r for r in res if r[1] != 0]
    if bad:
        raise EngineError("compilation failed:\n" + "\n".join(f"{b[0]}:\n{b[2]}" for b in bad[:3]))


def core_flags(san=False, hook=True, extra=()):
    f = list(BASE_FLAGS) + ["-D" + GUARD, '-DROOTSIM_VERSION="verif"', "-I" + SRC,
                            "-I" + os.path.join(VERIF, "engine", "fakempi")]
    if hook:
        f += ["-include", os.path.join(VERIF, "engine", "vy.h")]
    if san:
        f += SAN_FLAGS
    f += list(extra)
    return f


def build_core(outdir, files=None, san=False, hook=True, extra=(), exclude=("arch/thread.c",)):
    """Compile core sources from /repo's working tree into outdir/core; returns the list of objects."""
    files = files if files is not None else core_sources()
    files = [f for f in files if f not in exclude]
    jobs = []
    objs = []
    for f in files:
        obj = os.path.join(outdir, "core", f.replace("/", "_")[:-2] + ".o")
        jobs.append((os.path.join(SRC, f), obj, core_flags(san, hook, extra)))
        objs.append(obj)
    compile_many(jobs)
    return objs


def build_objs(outdir, sources, san=False, extra=(), plain=False):
    """Compile harness/engine sources (given relative to /verif). rsched.c is never sanitized."""
    jobs = []
    objs = []
    for s in sources:
        obj = os.path.join(outdir, "h", s.replace("/", "_")[:-2] + ".o")
        flags = list(BASE_FLAGS) + ["-I" + SRC, "-I" + os.path.join(VERIF, "engine"),
                                    "-I" + os.path.join(VERIF, "engine", "fakempi"), "-I" + VERIF, "-D" + GUARD]
        if san and not s.endswith("rsched.c") and not plain:
            flags += SAN_FLAGS
        flags += list(extra)
        jobs.append((os.path.join(VERIF, s), obj, flags))
        objs.append(obj)
    compile_many(jobs)
    return objs


def link(out, objs, san=False, libs=("-lpthread", "-lm")):
    cmd = ["gcc", "-o", out] + objs + (SAN_FLAGS if san else []) + list(libs)
    p = sh(cmd, capture_output=True, text=True)
    if p.returncode:
        raise EngineError("link failed: " + p.stderr[-3000:])
    return out


def fresh_dir(*parts):
    d = os.path.join(BUILD, *parts)
    shutil.rmtree(d, ignore_errors=True)
    os.makedirs(d, exist_ok=True)
    return d


SAN_ENV = {"ASAN_OPTIONS": "detect_leaks=0:abort_on_error=0:allocator_may_return_null=1:detect_stack_use_after_return=0",
           "UBSAN_OPTIONS": "print_stacktrace=0:halt_on_error=1"}


def run_rsched(binary, args, out_json, timeout=None):
    """Run one explorer invocation; returns the parsed JSON report. Exit code 2 = engine error."""
    env = dict(os.environ)
    env.update(SAN_ENV)
    p = sh([binary] + args + ["--out", out_json], capture_output=True, text=True, env=env, timeout=timeout)
    if p.returncode not in (0, 1):
        raise EngineError(f"explorer failed rc={p.returncode}: {' '.join(args)}\n{p.stderr[-2000:]}")
    rep = json.load(open(out_json))
    if rep.get("engine_errors"):
        raise EngineError(f"explorer reported engine errors: {' '.join(args)}\n" + json.dumps(rep.get("violations"))[:2000])
    return rep


def run_parallel(tasks, workers=NPROC):
    """tasks: list of callables; run in a thread pool (each spawns processes); returns results in order."""
    with cf.ThreadPoolExecutor(max_workers=workers) as ex:
        futs = [ex.submit(t) for t in tasks]
        return [f.result() for f in futs]


# ---------------------------------------------------------------- evidence and triage

def load_known():
    p = os.path.join(VERIF, "known_findings.json")
    if not os.path.exists(p):
        return []
    return json.load(open(p)).get("findings", [])


def triage(pid, violations):
    """violations: list of dicts with 'signature' and 'replay' (path) and optional 'detail'.
    A violation whose signature matches a listed known finding (of any property: all oracles stay armed in every run, so a
    check can meet a finding that belongs to another property) prints a KNOWN-FINDING line naming the finding's own property.
    Everything else prints VIOLATION for the running check. Returns the number of unlisted violations."""
    known = [k for k in load_known() if k.get("status") == "known"]
    unlisted = 0
    printed = set()
    for v in violations:
        sig = v["signature"]
        hit = None
        for k in known:
            if not re.search(k["match"], sig):
                continue
            if "shapes" in k:
                # deadlocks are identified by the exact (sorted) set of sites the threads are stuck at
                m = re.search(r"deadlock:(.*?)(?: \||$)", sig)
                if not m or m.group(1).strip() not in k["shapes"]:
                    continue
            hit = k
            break
        if hit:
            if hit["id"] not in printed:
                printed.add(hit["id"])
                print(f"KNOWN-FINDING: property={hit['property']} {hit['what']} [{hit['id']}] e.g. {sig[:200]} replay={v.get('replay', '-')}")
        else:
            unlisted += 1
            print(f"VIOLATION property={pid} replay={v.get('replay', '-')}")
            print(f"  signature: {sig[:400]}")
    return unlisted


def write_evidence(pid, tier, level, coverage, assumptions, wall_s, violations, seed=0):
    os.makedirs(os.path.join(VERIF, "evidence"), exist_ok=True)
    if not coverage.get("states") or not coverage.get("transitions"):
        coverage = {k: v for k, v in coverage.items() if k not in ("states", "transitions")}
    ev = {"property_id": pid, "tier": tier, "seed": int(seed), "level": level, "coverage": coverage,
          "assumptions": assumptions, "wall_s": round(wall_s, 3), "violations": int(violations)}
    path = os.path.join(VERIF, "evidence", pid + ".json")
    with open(path, "w") as f:
        json.dump(ev, f, indent=1)
    return path


def save_replay(pid, name, payload):
    d = os.path.join(VERIF, "replays", pid)
    os.makedirs(d, exist_ok=True)
    path = os.path.join(d, name)
    if isinstance(payload, (dict, list)):
        with open(path, "w") as f:
            json.dump(payload, f, indent=1)
    else:
        shutil.copyfile(payload, path)
    return path


def merge_rsched(reports):
    """Sum the numeric fields of several explorer reports; collect violations and samples."""
    tot = {"executions": 0, "pruned": 0, "steps": 0, "effects": 0, "choice_points": 0, "new_choice_points": 0,
           "distinct_states": 0, "distinct_transitions": 0, "distinct_outcomes": 0, "max_points": 0, "max_steps": 0}
    counters = {}
    viol = []
    samples = []
    exhaustive = True
    deadline = False
    for r in reports:
        for k in tot:
            if k.startswith("max_"):
                tot[k] = max(tot[k], r.get(k, 0))
            else:
                tot[k] += r.get(k, 0)
        for k, (s, nz) in r.get("counters", {}).items():
            c = counters.setdefault(k, [0, 0])
            c[0] += s
            c[1] += nz
        for v in r.get("violations", []):
            v = dict(v)
            v["scenario"] = r.get("id")
            v["args"] = r.get("args")
            viol.append(v)
        if r.get("samples"):
            samples.append({"scenario": r.get("id"), "args": r.get("args"), "execution": r["samples"][-1]})
        exhaustive &= bool(r.get("exhaustive"))
        deadline |= bool(r.get("deadline_hit"))
    tot["counters"] = counters
    tot["violations"] = viol
    tot["samples"] = samples
    tot["exhaustive"] = exhaustive
    tot["deadline_hit"] = deadline
    return tot


def rsched_scenarios(pid, label, binary, scenarios, d, workers=4):
    """Run explorer scenarios [(name, args)], save replays of violations under replays/<pid>/.
    Returns (reports, merged, violations[{signature, replay}])."""
    reps = run_parallel([(lambda n=n, a=a: run_rsched(binary, a + ["--id", n, "--replay-dir", d],
                                                      os.path.join(d, n + ".json"))) for n, a in scenarios], workers=workers)
    m = merge_rsched(reps)
    viol = []
    for v in m["violations"]:
        rp = save_replay(pid, os.path.basename(v["replay"]), v["replay"]) if os.path.exists(v["replay"]) else v["replay"]
        viol.append({"signature": f"{label}[{v['scenario']}] {v['signature']}", "replay": rp, "count": v.get("count", 1)})
    return reps, m, viol


def scenario_table(reps):
    return [{"id": r["id"], "args": r["args"], "mode": r["mode"], "bound_p": r["bound_p"], "bound_d": r["bound_d"],
             "level_completed": r["level_completed"], "executions": r["executions"], "states": r["distinct_states"],
             "transitions": r["distinct_transitions"], "outcomes": r["distinct_outcomes"], "exhaustive": r["exhaustive"]}
            for r in reps]


def rsched_replay(binary, path):
    args = []
    for line in open(path):
        if line.startswith("args "):
            args = line.split()[1:]
        if line.startswith("flags "):
            if "stateful=1" in line:
                args.append("--stateful")
            if "spurious=1" in line:
                args.append("--spurious-cas")
            if "postpoints=1" in line:
                args.append("--post-points")
            m = re.search(r"budget=(\d+)", line)
            if m:
                args += ["--budget", m.group(1)]
            m = re.search(r"freeze=(\d+)", line)
            if m and m.group(1) != "0":
                args += ["--freeze", m.group(1)]
    env = dict(os.environ)
    env.update(SAN_ENV)
    return subprocess.run([binary, "--replay", path] + args, env=env).returncode


def run_seqx(binary, args, timeout=None, env_extra=None):
    """Run a sequential enumerator; it prints one JSON report on stdout, exit 0/1."""
    env = dict(os.environ)
    env.update(SAN_ENV)
    if env_extra:
        env.update(env_extra)
    p = sh([binary] + [str(a) for a in args], capture_output=True, text=True, env=env, timeout=timeout)
    out = p.stdout.strip().splitlines()
    rep = None
    for line in reversed(out):
        if line.startswith("{"):
            try:
                rep = json.loads(line)
                break
            except ValueError:
                pass
    if rep is None:
        # a crash (sanitizer abort) before the report: the sanitizer headline becomes the signature
        err = p.stderr
        m = re.search(r"(ERROR: AddressSanitizer[^\n]*|[^\n]*runtime error:[^\n]*)", err)
        if m:
            sig = re.sub(r"0x[0-9a-f]+", "X", m.group(1))[:300]
            return {"harness": os.path.basename(binary), "evaluations": 0, "distinct_nontrivial": 0, "states": 0, "transitions": 0,
                    "exhaustive": False, "violations_total": 1, "wall_s": 0, "samples": [], "crashed": True,
                    "violations": [{"signature": "crash: " + sig, "detail": err[-3000:], "count": 1}], "args": [str(a) for a in args]}
        if p.returncode in (-11, -6, -7, -8, -4):
            # the enumerator runs the real code in-process on legal operation sequences only: the code under test dying with a fatal
            # signal is a finding (memory corrupted / invalid access), not a tooling failure; never seen on the unchanged tree
            sig = f"the code under test died with signal {-p.returncode} inside the enumerator"
            return {"harness": os.path.basename(binary), "evaluations": 0, "distinct_nontrivial": 0, "states": 0, "transitions": 0,
                    "exhaustive": False, "violations_total": 1, "wall_s": 0, "samples": [], "crashed": True,
                    "violations": [{"signature": "crash: " + sig, "detail": (p.stdout[-1500:] + err[-1500:]), "count": 1}],
                    "args": [str(a) for a in args]}
        raise EngineError(f"{binary} {' '.join(map(str, args))}: no report (rc={p.returncode})\n{p.stdout[-1500:]}\n{p.stderr[-1500:]}")
    rep["args"] = [str(a) for a in args]
    rep["rc"] = p.returncode
    if p.returncode not in (0, 1):
        raise EngineError(f"{binary}: rc={p.returncode}\n{p.stderr[-1500:]}")
    return rep


def seqx_collect(pid, label, reps):
    """Merge seqx reports; save one replay JSON per violation signature."""
    tot = {"evaluations": 0, "distinct_nontrivial": 0, "states": 0, "transitions": 0, "samples": [], "exhaustive": True}
    viol = []
    for r in reps:
        for k in ("evaluations", "distinct_nontrivial", "states", "transitions"):
            tot[k] += r.get(k, 0)
        tot["exhaustive"] &= bool(r.get("exhaustive"))
        for s in r.get("samples", [])[:3]:
            tot["samples"].append({"harness": r["harness"], "args": r["args"], "case": s})
        for i, v in enumerate(r.get("violations", [])):
            name = re.sub(r"[^A-Za-z0-9]+", "_", f"{r['harness']}_{'_'.join(r['args'])}_{i}")[:120] + ".json"
            rp = save_replay(pid, name, {"property": pid, "harness": r["harness"], "args": r["args"],
                                        "signature": v["signature"], "case": v["detail"], "count": v.get("count", 1)})
            viol.append({"signature": f"{label}:{r['harness']} {v['signature']}", "replay": rp, "detail": v["detail"]})
    return tot, viol
