"""Canonical enumeration of vmodel parameter vectors (DESIGN.md 2.3), simplest first."""
import itertools

RULES = list(range(8))  # VR_NONE .. VR_FAN2


def text(L, I, R, P=0, K=4, M=0, G=0, H=6, C=2, S=0):
    return "L%d_I%s_R%s_P%d_K%d_M%d_G%d_H%d_C%d_S%d" % (L, ",".join(map(str, I)), ",".join(map(str, R)), P, K, M, G, H, C, S)


def complexity(L, I, R, M, G):
    w = [0, 1, 1, 2, 2, 3, 3, 3]
    return L * 2 + sum(w[i] for i in I) + sum(w[r] for r in R) + 3 * M + 2 * (G > 0)


def enumerate_models(Ls=(1, 2, 3), preds=((0, 2), (0, 4), (5, 3)), mems=(0, 1), Hs=(4,), rngs=(0,), limit=None, rules=RULES):
    out = []
    for L in Ls:
        for i0 in rules[1:]:
            for iother in (0, i0):
                I = [i0] + [iother] * (L - 1)
                if L == 1 and iother:
                    continue
                for R in itertools.product(rules, repeat=3):
                    for M in mems:
                        for G in rngs:
                            out.append((complexity(L, I, R, M, G), L, I, R, M, G))
    out.sort(key=lambda x: (x[0], x[1], x[2], x[3], x[4], x[5]))
    res = []
    for _, L, I, R, M, G in out:
        for (P, K) in preds:
            for H in Hs:
                res.append(text(L, I, R, P, K, M, G, H))
                if limit and len(res) >= limit:
                    return res
    return res


FEATURE_MODELS = [
    # fan-out 2 + ties: heap grows through many sizes and shrinks again
    text(3, [7, 7, 7], [7, 5, 7], P=5, K=40, H=7),
    text(3, [5, 5, 5], [5, 7, 2], P=5, K=30, H=6),
    # zero-delay cascades and timestamp-0 events
    text(3, [3, 3, 3], [1, 3, 3], P=0, K=5, H=5),
    text(2, [6, 0], [6, 6, 6], P=0, K=6, H=4, C=9),
    # long same-timestamp chain at time 0 (more than one loop iteration of 64)
    text(2, [6, 6], [2, 2, 6], P=5, K=50, H=3, C=70),
    # 40-byte payloads (non-pooled messages) and dynamic memory over several arenas
    text(3, [4, 4, 4], [4, 2, 4], P=5, K=9, M=2, H=8),
    text(2, [2, 2], [2, 4, 1], P=0, K=8, M=2, H=9),
    # ties between 40-byte payloads that differ only beyond the first 32 bytes
    text(2, [9, 9], [9, 2, 9], P=5, K=12, H=5),
    text(3, [9, 1, 9], [2, 9, 9], P=0, K=5, M=1, H=5),
    # zero-delay relay of an unchanged event (same type, same payload bytes) to another LP: content-equal events pending at once
    text(3, [10, 10, 10], [0, 0, 10], P=5, K=30, H=3, C=2),
    text(2, [10, 1], [1, 2, 10], P=0, K=6, H=4, C=1),
    text(3, [10, 0, 0], [10, 10, 10], P=5, K=30, H=4, C=3),
    # RootsimStop from a handler
    text(2, [2, 2], [2, 2, 2], P=4, K=0, H=9, S=3),
    text(3, [7, 0, 0], [1, 2, 7], P=4, K=0, H=7, S=5),
    # every library distribution
] + [text(3, [2, 2, 2], [2, 7, 1], P=5, K=6, G=g, H=6) for g in range(1, 8)]
