#!/usr/bin/env python3
"""Regenerates MANIFEST.json from the table below (keeps it schema-valid at all times)."""
import json
import os

V = os.path.dirname(os.path.dirname(os.path.abspath(__file__)))
props = [json.loads(l) for l in open(os.path.join(V, "properties.jsonl"))]

CHECKS = {
    "C17": dict(
        engine="rsched", technique="stateful explicit-state search of the real barrier under a controlled scheduler (cyclic driver, "
        "state graph closed) + preemption-bounded stateless exploration",
        level="model_checking", design_ref="DESIGN.md 4/C17",
        text="All interleavings (at atomic-operation granularity) of the real sync_thread_barrier() for T=2,3 (thorough 4) threads over "
             "arbitrarily many consecutive uses (closed state graph of a cyclic driver), plus every schedule with <=3 preemptions of "
             "K=9 consecutive uses whose verdict does not depend on the digest.",
        note="Sequentially consistent interleavings only; thread counts <=4; digest completeness for the cyclic runs."),
    "C15": dict(
        engine="rsched", technique="preemption-bounded exhaustive interleaving exploration of the real lock-free queue + stateful "
        "complete-state search, linearizability-style oracle from call/return stamps; plus deviation-bounded exploration of the queue inside the whole runtime (start-up/shutdown barriers, LP_INIT inserts; plain accesses to shared static storage as scheduling points)",
        level="model_checking", design_ref="DESIGN.md 4/C15",
        text="Every schedule with <=2 preemptions (atomic-operation and call granularity) of 1-3 producers against every consumer "
             "operation string in {extract,peek}^5 plus drain, ties and a pre-cancelled entry included; complete state graph for "
             "selected strings (thorough: all 32, also with spurious CAS failures).",
        note="Sequentially consistent interleavings only; <=6 messages, <=3 producers; digest completeness for the stateful runs."),
    "C16": dict(
        engine="seqx", technique="exhaustive enumeration of all ordered triples of a structured event alphabet through the real comparators",
        level="model_checking", design_ref="DESIGN.md 4/C16",
        text="Strict-weak-order axioms and content-only dependence of msg_is_before and q_elem_is_before decided on every ordered triple "
             "of 180 (thorough 360) events incl. all payload-size classes and byte positions, plus 6 non-content variants of each.",
        note="Finite alphabet (3 types, 5 payload sizes, 5 content variants); compiled with gcc -O2."),
    "C14": dict(
        engine="seqx", technique="exhaustive enumeration of all (LPs, ranks, threads) triples through the real partitioning and routing code",
        level="model_checking", design_ref="DESIGN.md 4/C14",
        text="Every triple with ranks<=LPs<=200 (thorough 700), ranks,threads<=12 (16) through real lp_global_init/lp_init/lp_fini and "
             "lid_to_nid/lid_to_rid; ownership, contiguity, coverage, no idle thread, routing==ownership for every LP.",
        note="Per-LP initialisation work stubbed; ranks without LPs outside the domain."),
    "C12": dict(
        engine="seqx", technique="explicit-state BFS over the complete reachable state space of scaled-down arenas + depth-bounded "
        "exhaustive operation sequences on production constants, against a shadow model",
        level="model_checking", design_ref="DESIGN.md 4/C12",
        text="All operations from all 459k reachable states of two 8-leaf arenas (both address orders), three arenas in all 6 address "
             "orders to depth 6, and all operation sequences to depth 4 (thorough 5) on the production constants with checkpoints and "
             "restores interleaved; validity, alignment, disjointness, content stability, realloc prefix, clean failure, reuse after free.",
        note="Scaled-down arenas via the guarded constants override; arena addresses chosen by the harness."),
    "C05": dict(
        engine="seqx", technique="exhaustive enumeration of allocator histories x checkpoint intervals x rollback targets through the real "
        "checkpoint/restore code with coast forward, against shadow snapshots (addresses included); plus deviation-bounded exploration of the "
        "whole runtime on RNG-driven models (1-2 ranks) and complete-state search of the real process_msg step function over every delivery order (h_proc)",
        level="model_checking", design_ref="DESIGN.md 4/C05",
        text="Every history of 5 (thorough 6) allocator events x interval 1..3 x rollback target x second rollback on small arenas incl. "
             "growth to 3 arenas after the restored checkpoint, and 4 (5) events on production constants: restored state, coast forward, "
             "re-execution of the undone suffix and repeated rollback all equal the first run; end to end (h_run, p<=1) the generator "
             "state after every rollback / silent re-execution and no sends during coast forward.",
        note="Re-allocated blocks compared by identity/size/content (not address); event suppression and RNG replay are checked "
             "end-to-end by the whole-runtime checks."),
    "C13": dict(
        engine="seqx", technique="exhaustive enumeration of histories x checkpoint schedules x GVT values x rollbacks through the real "
        "fossil-collection code, against a shadow model; plus complete-state search (stateful exploration, no deviation bound) of the real "
        "process_msg/fossil step function over every delivery order and legal GVT announcement (h_proc), reference executor as oracle",
        level="model_checking", design_ref="DESIGN.md 4/C13",
        text="Every history of <=4 (thorough 5) events with ties and local/remote sent entries x interval 1..4 x every GVT value at, "
             "between and beyond timestamps x every legal rollback x second collection: kept checkpoint, re-based references, retained "
             "events, exactly-once release, exact state after rollback.",
        note="Rollback driver replicates the static do_rollback/silent_execution logic of process.c."),
    "C18": dict(
        engine="seqx", technique="exhaustive enumeration of structured generator states (inverted xoshiro output function) x argument grids "
        "through the real numerical library, plain and under UBSan",
        level="model_checking", design_ref="DESIGN.md 4/C18",
        text="Every boundary raw output (0, 1, 2^64-1, 2^k, 2^k+-1, exponent-boundary neighbours; |B|=203) for Random/Poisson/Expent, B x "
             "argument grid for RandomRange, B^2 for RandomRangeNonUniform/Normal/Zipf, B^3 for Gamma; ranges, finiteness, generator "
             "isolation; UBSan as second oracle.",
        note="Only the first three raw outputs of a call are controlled; documented argument domain."),
    "C19": dict(
        engine="seqx", technique="exhaustive enumeration of geometries x sizes x sources x directions x generator states, with "
        "call-interleaving/rollback sequences, through the real topology library; plus exhaustive single-preemption injection of another LP's call at every hidden-state access of the library (s_libstate)",
        level="model_checking", design_ref="DESIGN.md 4/C19",
        text="All 8 geometries, grids up to 4x4 (thorough 6x6), 1..6 (8) regions, every graph on <=3 regions, every source and direction; "
             "DIRECTION_RANDOM on 1.5k (5.9k) generator states incl. rollback-and-repeat after another LP's call; CountDirections and "
             "IsNeighbor consistency; every call-level interleaving (<=4 preemptions, thorough all) of two LPs on two threads.",
        note="Concurrent use is only sampled by a free-running two-thread pass; the memo oracle is sequential."),
    "C10": dict(
        engine="seqx", technique="exhaustive enumeration of the vmodel program grammar on the real serial runtime, compared dispatch by "
        "dispatch with an independent event-list executor",
        level="model_checking", design_ref="DESIGN.md 4/C10",
        text="6000 (thorough ~130k) models in canonical order + feature models x 4 configurations: LP_INIT first, per-LP dispatch "
             "sequences equal to the reference, non-decreasing timestamps, nothing skipped before the stop point, justified and not-early "
             "stop, LP_FINI once per LP last.",
        note="Reference shares the handler and msg_is_before with the runtime (C16 covers the relation)."),
    "C01": dict(engine="rsched", technique="preemption/deviation-bounded exhaustive exploration of the real runtime under a deterministic scheduler (fork per execution, delay-bounded levels) (incl. a build in which plain accesses to shared static storage are scheduling points) + complete-state search (stateful exploration, no deviation bound) of the real process_msg/fossil step function over every delivery order and legal GVT announcement (h_proc); reference executor as oracle", level="model_checking", design_ref="DESIGN.md 4/C01",
        text="Every schedule with <=1 non-default decision (2 on two models; thorough 2-3) of RootsimRun on 12 rollback-heavy models x "
             "configurations (threads 2-3, checkpoint interval 1-3/auto, GVT period 0/never) + 50 (thorough 3000) grammar models at p=0: "
             "end state, every committed event and state hash, state after every rollback equal the sequential reference.",
        note="Call-granularity interleavings; vmodel grammar; <=4 LPs, <=3 threads; sequentially consistent memory."),
    "C02": dict(engine="rsched", technique="preemption/deviation-bounded exhaustive exploration of the real runtime under a deterministic scheduler (fork per execution, delay-bounded levels) with 2-3 symbol-renamed copies of the core and an in-process MPI exploring delivery deviations; plus explicit-state search (complete-state digest, every wire/local delivery order x every legal GVT announcement) over the real process_msg()/mpi.c send-receive step functions with the LPs on 2 nodes (h_proc rm=1)",
        level="model_checking", design_ref="DESIGN.md 4/C02",
        text="2 ranks x 1-2 threads (thorough also 3 ranks): all executions with <=1 scheduling deviation and <=1 MPI deviation (delay, "
             "inter-sender reordering so that anti-messages overtake, delayed collective completion; d<=2 on one model): same oracles as "
             "C01 plus GVT agreement across ranks and nothing below a reported GVT in flight.",
        note="In-process MPI is my reading of MPI-3.1; <=3 ranks."),
    "C03": dict(engine="rsched", technique="preemption/deviation-bounded exhaustive exploration of the real runtime under a deterministic scheduler (fork per execution, delay-bounded levels) + complete-state search (stateful exploration, no deviation bound) of the real process_msg/fossil step function over every delivery order and legal GVT announcement (h_proc); commit-log oracle at every fossil collection", level="model_checking", design_ref="DESIGN.md 4/C03",
        text="Long trickling models with back-to-back GVT rounds, runs ended by predicate/exhaustion, termination time, RootsimStop from a "
             "handler and an external thread, p<=1 (thorough 2): every entry leaving a history below the GVT is, in order and content and "
             "state hash, the next event of the sequential per-LP sequence; nothing at or above the GVT is released.",
        note="1-2 ranks; call granularity."),
    "C04": dict(engine="rsched", technique="preemption/deviation-bounded exhaustive exploration of the real runtime under a deterministic scheduler (fork per execution, delay-bounded levels) with every atomic of the GVT/termination/queue code as scheduling point; complete-state search of the thread-phase protocol (h_gvt) and of the GVT accounting contract of process_msg over every delivery order (h_proc)", level="model_checking",
        design_ref="DESIGN.md 4/C04",
        text="Fine-grained interleavings (p<=1; thorough p<=2) of the GVT reduction with message traffic on tiny models, 2-3 threads, plus "
             "call-granularity p<=2: per-thread GVT sequences monotone and equal, no extraction/rollback below a told value, nothing "
             "below it queued or in flight at the moment it is told; plus a stateful complete-state search of gvt.c + the real queue "
             "under a cyclic main-loop-shaped driver (h_gvt; thorough: closed state graph of the smallest configuration).",
        note="Sequentially consistent interleavings; relaxed orderings not modelled; rank-level colouring under C02."),
    "C06": dict(engine="rsched", technique="preemption/deviation-bounded exhaustive exploration of the real runtime under a deterministic scheduler (fork per execution, delay-bounded levels) with the message flag words and queue atomics as scheduling points (incl. a build in which plain accesses to shared static storage are scheduling points); buffer life-cycle monitor; plus explicit-state search (complete-state digest, every wire/local delivery order x every legal GVT announcement) over the real process_msg()/mpi.c send-receive step functions with the LPs on 2 nodes (h_proc rm=1)",
        level="model_checking", design_ref="DESIGN.md 4/C06",
        text="Cancellation racing with extract/process/rollback/re-queue (all four positions observed), cascades, 40-byte payloads, remote "
             "cancellation incl. early anti-messages on 2 ranks: no double/early release, no use after release, exactly-once effects via "
             "the committed hashes.",
        note="Releases inside msg_allocator.c are mirrored, not observed."),
    "C07": dict(engine="rsched", technique="preemption/deviation-bounded exhaustive exploration of the real runtime under a deterministic scheduler (fork per execution, delay-bounded levels); termination legitimacy oracle against the reference execution", level="model_checking",
        design_ref="DESIGN.md 4/C07",
        text="Predicate kinds (monotone, non-monotone, true at init, first true at timestamp 0, never) x models x 1-3 threads x p<=1 "
             "(thorough 2): RootsimRun returns only if the largest GVT reached the termination time or every LP's predicate held on a "
             "committed reference state; plus every call sequence (depth 5, thorough 6) of the termination module against a shadow "
             "of the valid event history (s_term).",
        note="Finite models; call granularity."),
    "C08": dict(engine="rsched", technique="preemption/deviation-bounded exhaustive exploration of the real runtime under a deterministic scheduler (fork per execution, delay-bounded levels); deadlock = all live threads parked (confirmed), livelock = step budget", level="model_checking",
        design_ref="DESIGN.md 4/C08",
        text="Termination by predicate/time/exhaustion/RootsimStop (handler, external thread at a grid of points) against in-progress GVT "
             "rounds at atomic granularity, same-timestamp chains longer than a loop iteration (also at timestamp 0), 1-2 ranks: every "
             "execution returns with LP_FINI once per LP. Three shutdown defects are recorded as known findings.",
        note="Liveness under the fair default continuation after <=p deviations; known findings identified by exact site sets."),
    "C09": dict(engine="rsched", technique="preemption/deviation-bounded exhaustive exploration of the real runtime under a deterministic scheduler (fork per execution, delay-bounded levels) over the configuration matrix; all cells compared with one reference; plus exhaustive injection of another LP's library call between and inside the library calls of an LP (s_libstate: access call-backs from -fsanitize=thread instrumentation, run time not linked)", level="model_checking",
        design_ref="DESIGN.md 4/C09",
        text="7 RNG-driven models (every library distribution) x threads{1,2,3} x checkpoint{1,2,3,auto} x GVT period{0,never} x ranks{1,2}: "
             "first draws of every LP, all committed hashes (incl. generator state), state after rollbacks and silent re-execution equal "
             "the reference in every cell.",
        note="One seed; core binding replaced."),
    "C20": dict(engine="rsched", technique="preemption/deviation-bounded exhaustive exploration of the real runtime under a deterministic scheduler (fork per execution, delay-bounded levels); independent reader of the statistics file + occurrence shadow", level="model_checking",
        design_ref="DESIGN.md 4/C20",
        text="Statistics file of every explored execution (4 models x threads x GVT period x endings, p<=1) parsed per the documented "
             "layout and compared record by record with the occurrences counted by the wrappers; shipped parser as second reader. "
             "The unequal-record-count defect it found is repaired (fix: e8e7b02).",
        note="Counters only, one rank."),
    "C11": dict(engine="rsched", technique="the bounded exhaustive enumerations of the other checks (rsched whole-runtime exploration, h_proc complete-state search, seqx enumerators) re-run on ASan+UBSan builds of the core",
        level="model_checking", design_ref="DESIGN.md 4/C11",
        text="Whole runtime (parallel, 2-rank, ended by time/stop, 40-byte payloads, multi-arena memory), serial runtime on the grammar, "
             "allocator/checkpoint/fossil enumerators, numerical and topology libraries under AddressSanitizer+UBSan: any report is the "
             "violation.",
        note="Only what ASan/UBSan instrument; pooled buffers via the C06 monitor."),
}

NOT_YET = "check not built yet (work in progress; see DESIGN.md section 7)"

m = {
    "version": 1,
    "setup_cmd": "python3 -m compileall -q bin lib checks tools >/dev/null 2>&1; mkdir -p build evidence replays; true",
    "hooks": {
        "guard": "ROOTSIM_VERIF",
        "enable": "every check compiles /repo/src out of tree into /verif/build/<check>/ with -DROOTSIM_VERIF -include /verif/engine/vy.h "
                  "(hooks all C11 atomics, __rdtsc, _mm_pause); arch/thread.c is replaced by engine/plat.c",
        "baseline_off_cmd": "bin/check baseline",
        "source_commits": ["d8c52bebb34d427648a766957d722802fd191fed"],
        "add_only": True,
    },
    "engines": [
        {"name": "rsched", "path": "engine/rsched.c", "serves_properties": sorted(k for k, v in CHECKS.items() if v["engine"] == "rsched"),
         "kind_free_text": "deterministic cooperative scheduler over real pthreads + exhaustive explorer (fork per execution; "
                           "delay-bounded stateless levels, or stateful search on a complete-state digest)"},
        {"name": "seqx", "path": "harness/", "serves_properties": sorted(k for k, v in CHECKS.items() if v["engine"] == "seqx"),
         "kind_free_text": "explicit-state / exhaustive-input enumerators driving the real sequential components against shadow models"},
    ],
    "checks": [],
    "not_applicable": [],
    "notes": "All checks are bounded exhaustive explorations of the real implementation (model checking family); see DESIGN.md.",
}
for p in props:
    pid = p["id"]
    c = CHECKS.get(pid)
    if not c:
        m["not_applicable"].append({"property_id": pid, "reason": NOT_YET})
        continue
    m["checks"].append({
        "property_id": pid,
        "quick_cmd": f"bin/check {pid} --tier quick",
        "thorough_cmd": f"bin/check {pid} --tier thorough",
        "evidence_file": f"evidence/{pid}.json",
        "replay_cmd_template": f"bin/check {pid} --replay {{path}}",
        "engine": c["engine"],
        "level_claimed": {"category": c["level"], "text": c["text"], "design_ref": c["design_ref"]},
        "level_note": c["note"],
        "technique": c["technique"],
    })
json.dump(m, open(os.path.join(V, "MANIFEST.json"), "w"), indent=1)
print("checks:", len(m["checks"]), "not_applicable:", len(m["not_applicable"]))
