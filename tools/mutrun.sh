#!/bin/bash
# tools/mutrun.sh <check-id> <file-relative-to-src> <python-expr-old> <python-expr-new>   (development aid)
# Applies a textual mutation to /repo (working tree), runs the quick check, prints its verdict lines, restores.
set -u
ID=$1; F=$2; OLD=$3; NEW=$4
python3 - "$F" "$OLD" "$NEW" <<'PY' || exit 3
import sys
f,old,new=sys.argv[1:4]
p='/repo/src/'+f
s=open(p).read()
if old not in s: print("MUTATION TARGET NOT FOUND"); sys.exit(1)
open(p,'w').write(s.replace(old,new,1))
PY
cd /verif
rm -rf /verif/build/evidence.bak; cp -r /verif/evidence /verif/build/evidence.bak
timeout ${MUT_TIMEOUT:-600} bin/check $ID --tier ${MUT_TIER:-quick} 2>&1 | grep -E "VIOLATION|KNOWN-FINDING|ENGINE-ERROR|signature" | cut -c1-260 | head -${MUT_LINES:-6}
echo "rc=${PIPESTATUS[0]}"
git -C /repo checkout -- src
cp /verif/build/evidence.bak/*.json /verif/evidence/ 2>/dev/null
