#!/bin/bash
# tools/seed_apply_check.sh <patch.diff> <check-id>...   applies a seeded change to /repo, runs the quick checks, undoes it.
P=$1; shift
cd /verif
rm -rf /verif/build/evidence.bak; cp -r /verif/evidence /verif/build/evidence.bak
git -C /repo apply "$P" || { echo "PATCH DOES NOT APPLY"; exit 3; }
for id in "$@"; do
  echo "=== $id"
  timeout ${SEED_TIMEOUT:-900} bin/check $id --tier ${SEED_TIER:-quick} 2>&1 | grep -E "VIOLATION|KNOWN-FINDING|ENGINE-ERROR|signature" | cut -c1-300 | head -${SEED_LINES:-4}
  echo "rc=${PIPESTATUS[0]}"
done
git -C /repo checkout -- .
cp /verif/build/evidence.bak/*.json /verif/evidence/ 2>/dev/null
git -C /repo status --short | grep -v _build
