#!/bin/bash
# tools/seed_apply_check.sh <patch.diff> <check-id>...   applies a seeded change, runs the quick checks, undoes it.
# Default: the change is applied to a scratch worktree of /repo (/tmp/mut/seedwt) and the checks build from there
# (VERIF_REPO), so that checks running against /repo at the same time are not disturbed.  SEED_IN_REPO=1 applies it to
# /repo itself (git -C /repo apply; ...; git -C /repo checkout -- .) - only when nothing else is running.
P=$1; shift
IDS="$@"
cd /verif
B=/verif/build/evidence.bak.$$; rm -rf $B; cp -r /verif/evidence $B
if [ "${SEED_IN_REPO:-0}" = 1 ]; then
  R=/repo
else
  R=/tmp/mut/seedwt
  [ -d $R ] || git -C /repo worktree add --detach $R HEAD >/dev/null 2>&1
  git -C $R checkout -q --detach $(git -C /repo rev-parse HEAD) && git -C $R checkout -- . && git -C $R clean -fdq
  export VERIF_REPO=$R
fi
git -C $R apply "$P" || { echo "PATCH DOES NOT APPLY"; exit 3; }
for id in "$@"; do
  echo "=== $id"
  timeout ${SEED_TIMEOUT:-900} bin/check $id --tier ${SEED_TIER:-quick} 2>&1 | grep -E "VIOLATION|KNOWN-FINDING|ENGINE-ERROR|signature" | cut -c1-300 | head -${SEED_LINES:-4}
  echo "rc=${PIPESTATUS[0]}"
done
git -C $R checkout -- .
for id in $IDS; do cp $B/$id.json /verif/evidence/ 2>/dev/null; done   # only what this run overwrote
rm -rf $B
git -C $R status --short | grep -v _build
