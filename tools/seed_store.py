#!/usr/bin/env python3
"""tools/seed_store.py <name> <property> <caught_by: comma list or 'none'> <needs...>  - files a verified seeded change under seeded/<name>/"""
import json, os, shutil, sys
name, prop, caught = sys.argv[1:4]
needs = " ".join(sys.argv[4:])
W = f"/tmp/mut/{name}"
D = f"/verif/seeded/{name}"
os.makedirs(D, exist_ok=True)
shutil.copyfile(f"{W}/OUT/patch.diff", f"{D}/patch.diff")
if os.path.isdir(f"{D}/demo"):
    shutil.rmtree(f"{D}/demo")
shutil.copytree(f"{W}/OUT/demo", f"{D}/demo", ignore=shutil.ignore_patterns("*.o", "demo", "a.out", "*.bin"))
if os.path.exists(f"{W}/OUT/README.md"):
    shutil.copyfile(f"{W}/OUT/README.md", f"{D}/README.agent.md")
log = open(f"{W}/VERIFY.log").read() if os.path.exists(f"{W}/VERIFY.log") else ""
meta = {
    "property": prop,
    "origin": "fresh sub-agent given only the property text and a scratch worktree of /repo",
    "needs_to_manifest": needs,
    "confirmed_by_me": {
        "test_suite_with_change": "SUITE: all passed" in log or "100% tests passed" in log,
        "demo_with_change_fails": "## demo WITH change\ndemo rc=0" not in log and "## demo WITH change" in log,
        "demo_without_change_passes": "## demo WITHOUT change\ndemo rc=0" in log,
        "how": "tools/seed_verify.sh in the scratch worktree (cmake build + ctest with the change; demo/run.sh with and without the change)",
        "log_tail": log[-900:],
    },
    "checks_run": "tools/seed_apply_check.sh (git -C /repo apply patch.diff; bin/check <id> --tier quick; git -C /repo checkout -- .)",
    "caught_by": [] if caught == "none" else caught.split(","),
}
json.dump(meta, open(f"{D}/meta.json", "w"), indent=1)
print(json.dumps(meta["confirmed_by_me"], indent=1)[:400])
