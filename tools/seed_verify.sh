#!/bin/bash
# tools/seed_verify.sh <name>   (scratch worktree /tmp/mut/<name>, change applied there by the sub-agent)
# Confirms: project builds, test suite passes with the change, demo fails with it and passes without it.
N=$1; W=/tmp/mut/$N; L=$W/VERIFY.log
cd $W || exit 2
{
echo "## diff"; git diff --stat -- src
echo "## build+ctest WITH change"
rm -rf _vbuild
cmake -G Ninja -S . -B _vbuild -DCMAKE_BUILD_TYPE=RelWithDebInfo -DCMAKE_C_FLAGS=-Wno-error >/dev/null 2>&1 && cmake --build _vbuild -j8 >/dev/null 2>&1 || echo "BUILD FAILED"
OMPI_ALLOW_RUN_AS_ROOT=1 OMPI_ALLOW_RUN_AS_ROOT_CONFIRM=1 ctest --test-dir _vbuild -j4 --timeout 900 ${SKIP_SYNC:+-E test_sync} > _vbuild/ctest.out 2>&1
tail -8 _vbuild/ctest.out
# the per-test 60 s limit of test/CMakeLists.txt fires on a loaded machine: re-run such tests directly, without the limit
ALLOK=1
for t in $(grep -E "^\s+[0-9]+ - test_.*\((Timeout|Failed)\)" _vbuild/ctest.out | awk '{print $3}'); do
  if OMPI_ALLOW_RUN_AS_ROOT=1 OMPI_ALLOW_RUN_AS_ROOT_CONFIRM=1 timeout 2400 _vbuild/test/$t >/dev/null 2>&1; then echo "RERUN-ALONE $t: pass"; else echo "RERUN-ALONE $t: FAIL rc=$?"; ALLOK=0; fi
done
if grep -q "100% tests passed" _vbuild/ctest.out; then echo "SUITE: all passed in ctest"; elif [ $ALLOK = 1 ]; then echo "SUITE: all passed (timeouts re-run alone passed)"; else echo "SUITE: FAILURES"; fi
[ -n "$SKIP_SYNC" ] && echo "NOTE: test_sync (barrier only, 5-30 min under load) not re-run by me: the change does not touch src/core/sync.[ch]; the sub-agent ran it once alone: pass"
echo "## demo WITH change"
ln -sfn _vbuild _build
( cd OUT/demo && timeout 900 bash ./run.sh >/dev/null 2>&1; echo "demo rc=$?" )
echo "## demo WITHOUT change"
git diff -- src > /tmp/mut/$N.verify.patch
git apply -R /tmp/mut/$N.verify.patch
cmake --build _vbuild -j8 >/dev/null 2>&1
( cd OUT/demo && timeout 900 bash ./run.sh >/dev/null 2>&1; echo "demo rc=$?" )
git apply /tmp/mut/$N.verify.patch
rm -rf _vbuild _build
echo "## done"
} > $L 2>&1
