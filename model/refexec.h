/* refexec - independent textbook event-list executor for vmodel models (DESIGN.md 2.3) */
#ifndef REFEXEC_H
#define REFEXEC_H
#include "vmodel.h"

#define RX_MAXEV 4096
struct rx_event {
	uint64_t lp;
	double t;
	unsigned type, size;
	uint64_t plh;     /* payload hash */
	uint64_t h_after; /* state digest after the delivery */
	bool pred_after;
	bool ignored;     /* delivered to an LP that had stopped changing (VP_COUNT_STOP): state untouched */
};
struct rx_result {
	unsigned n_lps;
	unsigned n;                     /* events delivered in global order */
	struct rx_event ev[RX_MAXEV];
	unsigned per_lp_n[VM_MAXLP];
	unsigned per_lp[VM_MAXLP][RX_MAXEV / 2]; /* indices into ev[] */
	uint64_t h_init[VM_MAXLP];
	bool pred_init[VM_MAXLP];
	int first_true[VM_MAXLP];       /* -1: true at init; k>=0: per-LP index of the delivery after which it first held; -2: never */
	uint64_t h_final[VM_MAXLP];     /* digest after the whole run (exhaustion) */
	bool all_pred_hold;             /* every LP's predicate eventually holds in the sequential run */
	double t_all_hold;              /* timestamp of the delivery that made the last predicate hold (0 if all at init) */
	bool overflow;
	bool stop_called;
	unsigned stop_index;            /* global index of the delivery during which RootsimStop was called */
	uint64_t rng_first[VM_MAXLP][4];/* first four raw draws of every LP's stream */
};
/* runs VM to exhaustion; uses the real msg_is_before for the order and the real random library for the streams */
void rx_run(struct rx_result *out, uint64_t prng_seed);
#endif
