#include "vmodel.h"
#include <stdio.h>
#include <stdlib.h>
#include <string.h>

#define LP_INIT_EV 65534u
#define LP_FINI_EV 65535u

struct vm_model VM;
const struct vm_env *vm_env;

/* "L3 I1,2,0 R2,3,1 P0 K6 M1 G0 H8 C2 S0" */
int vm_parse(const char *text, struct vm_model *m)
{
	memset(m, 0, sizeof *m);
	snprintf(m->text, sizeof m->text, "%s", text);
	m->n_lps = 2;
	m->horizon = 6;
	m->K = 4;
	m->chain = 2;
	const char *p = text;
	while(*p) {
		char c = *p++;
		if(c == ' ' || c == '_')
			continue;
		char *e;
		switch(c) {
			case 'L':
				m->n_lps = (unsigned)strtoul(p, &e, 10);
				p = e;
				break;
			case 'I':
				for(unsigned i = 0; i < VM_MAXLP; ++i) {
					m->init_rule[i] = (unsigned)strtoul(p, &e, 10);
					p = e;
					if(*p != ',')
						break;
					++p;
				}
				break;
			case 'R':
				for(unsigned i = 0; i < VM_NTYPES; ++i) {
					m->ev_rule[i] = (unsigned)strtoul(p, &e, 10);
					p = e;
					if(*p != ',')
						break;
					++p;
				}
				break;
			case 'P':
				m->pred = (unsigned)strtoul(p, &e, 10);
				p = e;
				break;
			case 'K':
				m->K = (unsigned)strtoul(p, &e, 10);
				p = e;
				break;
			case 'M':
				m->mem = (unsigned)strtoul(p, &e, 10);
				p = e;
				break;
			case 'G':
				m->rng = (unsigned)strtoul(p, &e, 10);
				p = e;
				break;
			case 'H':
				m->horizon = (unsigned)strtoul(p, &e, 10);
				p = e;
				break;
			case 'C':
				m->chain = (unsigned)strtoul(p, &e, 10);
				p = e;
				break;
			case 'S':
				m->stop_at = (unsigned)strtoul(p, &e, 10);
				p = e;
				break;
			default:
				return -1;
		}
	}
	if(m->n_lps < 1 || m->n_lps > VM_MAXLP || m->pred > VP_COUNT_CONT || m->rng >= VG_NKINDS)
		return -1;
	for(unsigned i = 0; i < VM_MAXLP; ++i)
		if(m->init_rule[i] >= VR_NRULES)
			return -1;
	for(unsigned i = 0; i < VM_NTYPES; ++i)
		if(m->ev_rule[i] >= VR_NRULES)
			return -1;
	return 0;
}

uint64_t vm_payload_hash(const void *pl, unsigned size)
{
	uint64_t h = 1469598103934665603ULL ^ size;
	const unsigned char *p = pl;
	for(unsigned i = 0; i < size; ++i)
		h = (h ^ p[i]) * 1099511628211ULL;
	return h;
}

static uint64_t buf_sum(const struct vm_state *s)
{
	uint64_t h = 7;
	for(int i = 0; i < VM_NBUF; ++i) {
		h = vm_mix(h, s->blen[i]);
		if(s->buf[i])
			h = vm_mix(h, vm_payload_hash(s->buf[i], s->blen[i]));
	}
	return h;
}

uint64_t vm_state_digest(const struct vm_state *s)
{
	uint64_t h = vm_mix(s->h, s->count);
	h = vm_mix(h, s->saw_t0);
	h = vm_mix(h, s->stopped);
	return vm_mix(h, buf_sum(s));
}

uint64_t vm_full_digest(const struct vm_state *s)
{
	return vm_mix(vm_state_digest(s), vm_env->rng_hash ? vm_env->rng_hash() : 0);
}

static bool pred_of(const struct vm_state *s)
{
	switch(VM.pred) {
		case VP_COUNT_STOP:
		case VP_COUNT_CONT:
			return s->count >= VM.K;
		case VP_TRUE_AT_INIT:
			return true;
		case VP_FIRST_AT_T0:
			return s->saw_t0 != 0;
		case VP_NONMONOTONE:
			return s->count == VM.K;
		default:
			return false;
	}
}

bool vm_can_end(uint64_t me, const void *st)
{
	(void)me;
	return st ? pred_of(st) : false;
}

static uint64_t vm_cur_count; /* events the sending LP has processed, the current one included */

static void send_rule(unsigned rule, uint64_t me, double now, unsigned type, const void *pl, unsigned size, uint64_t h)
{
	unsigned n = VM.n_lps;
	uint64_t nb = (me + 1) % n;
	unsigned char big[40];
	switch(rule) {
		case VR_NONE:
			break;
		case VR_SELF1:
			if(now + 1 <= VM.horizon)
				vm_env->schedule(me, now + 1, type, NULL, 0);
			break;
		case VR_NEIGH1:
			if(now + 1 <= VM.horizon)
				vm_env->schedule(nb, now + 1, type, &h, 8);
			break;
		case VR_NEIGH0_LOWER:
			/* zero delay: legal only with a strictly lower type (ordered after the current event) */
			if(type > 0 && type < VM_NTYPES)
				vm_env->schedule(nb, now, type - 1, &h, 8);
			else if(now + 1 <= VM.horizon)
				vm_env->schedule(nb, now + 1, VM_NTYPES - 1, &h, 8);
			break;
		case VR_NEIGH2_BIG:
			if(now + 2 <= VM.horizon) {
				for(unsigned i = 0; i < 40; ++i)
					big[i] = (unsigned char)(h >> ((i % 8) * 8)) ^ (unsigned char)i;
				vm_env->schedule((me + 2) % n, now + 2, type, big, 40);
			}
			break;
		case VR_TIE:
			if(now + 1 <= VM.horizon) {
				uint64_t a = h, b = h + 1;
				vm_env->schedule(nb, now + 1, type, &a, 8);
				vm_env->schedule(nb, now + 1, type, &b, 8);
			}
			break;
		case VR_CHAIN: {
			/* self, zero delay, same type, 4-byte counter going down: each link is ordered after its parent */
			uint32_t c;
			if(size == 4) {
				memcpy(&c, pl, 4);
				if(c > 0) {
					--c;
					vm_env->schedule(me, now, type, &c, 4);
				} else if(now + 1 <= VM.horizon)
					vm_env->schedule(nb, now + 1, type, NULL, 0);
			} else if(size < 4) {
				c = VM.chain;
				vm_env->schedule(me, now, type, &c, 4);
			} else if(now + 1 <= VM.horizon) {
				/* a 4-byte payload would sort before the larger current one: start the chain one tick later */
				c = VM.chain;
				vm_env->schedule(me, now + 1, type, &c, 4);
			}
			break;
		}
		case VR_T0_TWICE: {
			/* two events for the neighbour at the current timestamp (timestamp 0 when used as init rule), lower type,
			 * distinct payloads; plus a self event one tick later that keeps this LP busy */
			uint64_t a = h, b = h ^ 0x55;
			unsigned lt = type > 0 && type <= VM_NTYPES ? 0 : 0;
			if(type > 0) {
				vm_env->schedule(nb, now, lt, &a, 8);
				vm_env->schedule(nb, now, lt, &b, 8);
			}
			if(now + 1 <= VM.horizon)
				vm_env->schedule(me, now + 1, type, NULL, 0);
			break;
		}
		case VR_TIE_BIG:
			/* two events with the same timestamp, type and 40-byte size whose payloads share the first 32 bytes and differ
			 * only in the continuation of the payload (beyond the inline part of the message) */
			if(now + 1 <= VM.horizon) {
				for(unsigned i = 0; i < 40; ++i)
					big[i] = (unsigned char)(h >> ((i % 8) * 8)) ^ (unsigned char)(i * 7);
				vm_env->schedule(nb, now + 1, type, big, 40);
				big[33] ^= 0x5a;
				big[39] += 1;
				vm_env->schedule(nb, now + 1, type, big, 40);
			}
			break;
		case VR_RELAY0:
			/* pass the event on unchanged - same type, same payload bytes - to the neighbour: with zero delay while this LP
			 * has seen at most `chain` events (the relayed event and the one being processed are then indistinguishable by
			 * content), one tick later afterwards */
			if(vm_cur_count <= VM.chain)
				vm_env->schedule(nb, now, type, pl, size);
			else if(now + 1 <= VM.horizon)
				vm_env->schedule(nb, now + 1, type, pl, size);
			break;
		case VR_FAN2:
			if(now + 1 <= VM.horizon) {
				vm_env->schedule(nb, now + 1, (type + 1) % VM_NTYPES, &h, 8);
				vm_env->schedule((me + 2) % n, now + 2 <= VM.horizon ? now + 2 : now + 1, type, NULL, 0);
			}
			break;
	}
}

static void memory_step(struct vm_state *s)
{
	if(!VM.mem)
		return;
	static const uint32_t small[] = {24, 100, 700};
	static const uint32_t large[] = {100, 5000, 40000};
	const uint32_t *sz = VM.mem == 1 ? small : large;
	unsigned k = (unsigned)(s->h % 7), i = (unsigned)((s->h >> 8) % VM_NBUF);
	uint32_t want = sz[(s->h >> 16) % 3];
	if(k < 3) {
		if(!s->buf[i]) {
			s->buf[i] = vm_env->alloc(want);
			s->blen[i] = want;
			for(uint32_t j = 0; j < want; ++j)
				s->buf[i][j] = (unsigned char)(s->h >> ((j % 8) * 8)) ^ (unsigned char)j;
		} else {
			/* scribble over part of it */
			for(uint32_t j = 0; j < s->blen[i]; j += 1 + (uint32_t)(s->h % 13))
				s->buf[i][j] ^= (unsigned char)(s->h >> 24);
		}
	} else if(k < 5) {
		if(s->buf[i]) {
			uint32_t old = s->blen[i];
			s->buf[i] = vm_env->realloc_(s->buf[i], want);
			s->blen[i] = want;
			for(uint32_t j = old; j < want; ++j)
				s->buf[i][j] = (unsigned char)(j * 3 + (s->h >> 40));
		}
	} else if(k == 5) {
		if(s->buf[i]) {
			vm_env->free_(s->buf[i]);
			s->buf[i] = NULL;
			s->blen[i] = 0;
		}
	}
}

static uint64_t rng_step(void)
{
	union {
		double d;
		uint64_t u;
	} x = {0};
	switch(VM.rng) {
		case VG_NONE:
			return 0;
		case VG_U64:
			return vm_env->u64();
		case VG_RANDOM:
			x.d = vm_env->random();
			return x.u;
		case VG_EXPENT:
			x.d = vm_env->expent(2.5);
			return x.u;
		case VG_NORMAL:
			x.d = vm_env->normal();
			return x.u;
		case VG_GAMMA:
			x.d = vm_env->gamma(3);
			return x.u ^ (uint64_t)(vm_env->gamma(7) * 1024.0);
		case VG_ZIPF:
			return vm_env->zipf(1.5, 50);
		default:
			return (uint64_t)vm_env->range(3, 40);
	}
}

void vm_process_event(uint64_t me, double now, unsigned type, const void *pl, unsigned size, void *st)
{
	struct vm_state *s = st;
	if(type == LP_INIT_EV) {
		s = vm_env->alloc(sizeof *s);
		memset(s, 0, sizeof *s);
		vm_env->set_state(s);
		s->h = vm_mix(0xabcdef, me);
		s->h = vm_mix(s->h, rng_step());
		vm_cur_count = 0;
		send_rule(VM.init_rule[me % VM_MAXLP], me, 0.0, VM_NTYPES - 1, NULL, 0, s->h);
		if(vm_env->on_init)
			vm_env->on_init(me, vm_full_digest(s), pred_of(s));
		return;
	}
	if(type == LP_FINI_EV) {
		if(vm_env->on_fini)
			vm_env->on_fini(me, s);
		return;
	}
	if(VM.pred == VP_COUNT_STOP && s->stopped)
		return; /* the LP stops changing once its predicate holds */
	/* fold what is found before touching anything: every byte of rollbackable memory and the event itself */
	s->h = vm_mix(s->h, buf_sum(s));
	s->h = vm_mix(s->h, (uint64_t)(now * 16.0));
	s->h = vm_mix(s->h, type);
	s->h = vm_mix(s->h, vm_payload_hash(pl, size));
	s->count++;
	if(now == 0.0)
		s->saw_t0 = 1;
	s->h = vm_mix(s->h, rng_step());
	memory_step(s);
	vm_cur_count = s->count;
	if(type < VM_NTYPES)
		send_rule(VM.ev_rule[type], me, now, type, pl, size, s->h);
	if(VM.pred == VP_COUNT_STOP && pred_of(s))
		s->stopped = 1;
	if(VM.stop_at && me == 0 && s->count == VM.stop_at && vm_env->stop)
		vm_env->stop();
	if(vm_env->on_event)
		vm_env->on_event(me, now, type, pl, size, vm_full_digest(s), pred_of(s));
}
