/* coreenv - the vm_env that binds vmodel to the real runtime API (ScheduleNewEvent, rs_malloc, Random, ...) */
#include "vmodel.h"
#include <ROOT-Sim.h>
#include <core/core.h>
#include <lp/lp.h>
#include "rankapi.h"

RK_DECL(ScheduleNewEvent);
RK_DECL(rs_malloc);
RK_DECL(rs_realloc);
RK_DECL(rs_free);
RK_DECL(SetState);
RK_DECL(RandomU64);
RK_DECL(Random);
RK_DECL(Poisson);
RK_DECL(Normal);
RK_DECL(Gamma);
RK_DECL(Zipf);
RK_DECL(RandomRange);
RK_DECL(RootsimStop);
RK_DECL_TLS(current_lp);

static void ce_schedule(uint64_t receiver, double t, unsigned type, const void *pl, unsigned size)
{
	RKF(ScheduleNewEvent)(receiver, t, type, pl, size);
}
static void *ce_alloc(size_t s)
{
	return RKF(rs_malloc)(s);
}
static void *ce_realloc(void *p, size_t s)
{
	return RKF(rs_realloc)(p, s);
}
static void ce_free(void *p)
{
	RKF(rs_free)(p);
}
static void ce_set_state(void *s)
{
	RKF(SetState)(s);
}
static uint64_t ce_u64(void)
{
	return RKF(RandomU64)();
}
static double ce_random(void)
{
	return RKF(Random)();
}
static double ce_expent(double m)
{
	return m * RKF(Poisson)();
}
static double ce_normal(void)
{
	return RKF(Normal)();
}
static double ce_gamma(unsigned ia)
{
	return RKF(Gamma)(ia);
}
static unsigned ce_zipf(double s, unsigned l)
{
	return RKF(Zipf)(s, l);
}
static int ce_range(int a, int b)
{
	return RKF(RandomRange)(a, b);
}
static void ce_stop(void)
{
	RKF(RootsimStop)();
}

static uint64_t ce_rng_hash(void)
{
	const uint64_t *st = RKV(current_lp)->rng_ctx->state;
	return vm_mix(vm_mix(st[0], st[1]), vm_mix(st[2], st[3]));
}

struct vm_env vm_core_env = {
    .schedule = ce_schedule, .alloc = ce_alloc, .realloc_ = ce_realloc, .free_ = ce_free, .set_state = ce_set_state,
    .u64 = ce_u64, .random = ce_random, .expent = ce_expent, .normal = ce_normal, .gamma = ce_gamma, .zipf = ce_zipf,
    .range = ce_range, .stop = ce_stop, .rng_hash = ce_rng_hash};
