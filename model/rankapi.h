/* rankapi.h - access to the per-rank copies of the core.
 * Verification builds of the whole runtime link NRANKS symbol-renamed copies of the core (prefix r<k>_, TLS included)
 * into one process; the calling thread's rank is rs_rank().  RKF(name) is the calling rank's copy of function `name`,
 * RKV(name) the calling rank's copy of variable `name`.  Without NRANKS (sequential harnesses) they are the plain symbols. */
#ifndef RANKAPI_H
#define RANKAPI_H
#ifdef NRANKS
#include "../engine/rsched.h"
#define RK_DECL(name) extern __typeof__(name) r0_##name, r1_##name, r2_##name
#define RK_DECL_TLS(name) extern __thread __typeof__(name) r0_##name, r1_##name, r2_##name
#if NRANKS == 1
#define RKF(name) (r0_##name)
#define RKV(name) (r0_##name)
#elif NRANKS == 2
#define RKF(name) (rs_rank() == 0 ? r0_##name : r1_##name)
#define RKV(name) (*(rs_rank() == 0 ? &r0_##name : &r1_##name))
#else
#define RKF(name) (rs_rank() == 0 ? r0_##name : rs_rank() == 1 ? r1_##name : r2_##name)
#define RKV(name) (*(rs_rank() == 0 ? &r0_##name : rs_rank() == 1 ? &r1_##name : &r2_##name))
#endif
#else
#define RK_DECL(name)
#define RK_DECL_TLS(name)
#define RKF(name) (name)
#define RKV(name) (name)
#endif
#endif
