/* vmodel - a finite grammar of simulation models interpreted by one ProcessEvent/CanEnd pair
 * (DESIGN.md 2.3).  The handler talks to its environment through vm_env so that the same model
 * code runs on the real runtimes (core env) and on the independent reference executor (ref env). */
#ifndef VMODEL_H
#define VMODEL_H
#include <stdbool.h>
#include <stddef.h>
#include <stdint.h>

#define VM_MAXLP 6
#define VM_NTYPES 3
#define VM_NBUF 3

enum vm_rule { VR_NONE, VR_SELF1, VR_NEIGH1, VR_NEIGH0_LOWER, VR_NEIGH2_BIG, VR_TIE, VR_CHAIN, VR_FAN2, VR_T0_TWICE, VR_TIE_BIG, VR_RELAY0, VR_NRULES };
enum vm_pred { VP_COUNT_STOP, VP_TRUE_AT_INIT, VP_FIRST_AT_T0, VP_NONMONOTONE, VP_NEVER, VP_COUNT_CONT };
enum vm_rng { VG_NONE, VG_U64, VG_RANDOM, VG_EXPENT, VG_NORMAL, VG_GAMMA, VG_ZIPF, VG_RANGE, VG_NKINDS };

struct vm_model {
	unsigned n_lps;
	unsigned init_rule[VM_MAXLP];
	unsigned ev_rule[VM_NTYPES];
	unsigned pred;
	unsigned K;       /* predicate threshold on the event count */
	unsigned mem;     /* 0: no dynamic memory, 1: small buffers, 2: buffers spanning several arenas */
	unsigned rng;     /* enum vm_rng */
	unsigned horizon; /* no sends with timestamp beyond this */
	unsigned chain;   /* start value of the zero-delay chain */
	unsigned stop_at; /* != 0: the handler calls RootsimStop() at its stop_at-th event on LP 0 */
	char text[160];
};

struct vm_state {
	uint64_t h;        /* history hash: chains every delivered event and every byte of rollbackable memory */
	uint64_t count;    /* events processed (not counting ignored ones) */
	uint64_t saw_t0;   /* an event with timestamp 0 was processed */
	uint64_t stopped;  /* VP_COUNT_STOP: predicate held, later events are ignored */
	unsigned char *buf[VM_NBUF];
	uint32_t blen[VM_NBUF];
};

struct vm_env {
	void (*schedule)(uint64_t receiver, double t, unsigned type, const void *pl, unsigned size);
	void *(*alloc)(size_t);
	void *(*realloc_)(void *, size_t);
	void (*free_)(void *);
	void (*set_state)(void *);
	uint64_t (*u64)(void);
	double (*random)(void);
	double (*expent)(double);
	double (*normal)(void);
	double (*gamma)(unsigned);
	unsigned (*zipf)(double, unsigned);
	int (*range)(int, int);
	void (*stop)(void);
	uint64_t (*rng_hash)(void); /* hash of the calling LP's generator state */
	/* observation: called at the end of every non-ignored, non-silent delivery with the post-state hash */
	void (*on_event)(uint64_t me, double now, unsigned type, const void *pl, unsigned size, uint64_t h_after, bool pred);
	void (*on_init)(uint64_t me, uint64_t h_after, bool pred);
	void (*on_fini)(uint64_t me, const struct vm_state *st);
};

extern struct vm_model VM;
extern const struct vm_env *vm_env;

int vm_parse(const char *text, struct vm_model *m);
void vm_process_event(uint64_t me, double now, unsigned type, const void *pl, unsigned size, void *st);
bool vm_can_end(uint64_t me, const void *st);
uint64_t vm_payload_hash(const void *pl, unsigned size);
uint64_t vm_state_digest(const struct vm_state *s);
uint64_t vm_full_digest(const struct vm_state *s); /* state digest + the LP's generator state */

static inline uint64_t vm_mix(uint64_t h, uint64_t x)
{
	h ^= x + 0x9e3779b97f4a7c15ULL + (h << 6) + (h >> 2);
	h *= 0xff51afd7ed558ccdULL;
	h ^= h >> 33;
	return h;
}
#endif
