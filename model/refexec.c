#include "refexec.h"
#include <ROOT-Sim.h>
#include <core/core.h>
#include <lib/random/random.h>
#include <lp/lp.h>
#include <lp/msg.h>
#include <stdlib.h>
#include <string.h>

/* the event list: a singly linked list kept sorted by the runtime's own happens-before relation */
struct node {
	struct node *next;
	struct lp_msg *m;
};
static struct node *head;
static struct rx_result *RX;
static struct lp_ctx rx_lp[VM_MAXLP];
static struct rng_ctx rx_rng[VM_MAXLP];
static void *rx_state[VM_MAXLP];
static uint64_t cur_lp;
static bool cur_ignored;

static void rx_schedule(uint64_t receiver, double t, unsigned type, const void *pl, unsigned size)
{
	struct lp_msg *m = calloc(1, offsetof(struct lp_msg, extra_pl) + (size > MSG_PAYLOAD_BASE_SIZE ? size - MSG_PAYLOAD_BASE_SIZE : 0) + 8);
	m->dest = receiver;
	m->dest_t = t;
	m->m_type = type;
	m->pl_size = size;
	m->raw_flags = 0;
	if(size)
		memcpy(m->pl, pl, size);
	struct node *n = malloc(sizeof *n);
	n->m = m;
	struct node **pp = &head;
	/* insert after every event that is not after the new one: stable for content-identical events */
	while(*pp && !msg_is_before(m, (*pp)->m))
		pp = &(*pp)->next;
	n->next = *pp;
	*pp = n;
}

static void *rx_alloc(size_t s)
{
	return malloc(s);
}
static void *rx_realloc(void *p, size_t s)
{
	return realloc(p, s);
}
static void rx_free(void *p)
{
	free(p);
}
static void rx_set_state(void *s)
{
	rx_state[cur_lp] = s;
}
static uint64_t rx_u64(void)
{
	return RandomU64();
}
static double rx_random(void)
{
	return Random();
}
static double rx_expent(double m)
{
	return Expent(m);
}
static double rx_normal(void)
{
	return Normal();
}
static double rx_gamma(unsigned ia)
{
	return Gamma(ia);
}
static unsigned rx_zipf(double s, unsigned l)
{
	return Zipf(s, l);
}
static int rx_range(int a, int b)
{
	return RandomRange(a, b);
}
static void rx_stop(void)
{
	if(!RX->stop_called) {
		RX->stop_called = true;
		RX->stop_index = RX->n;
	}
}
static uint64_t rx_rng_hash(void)
{
	const uint64_t *st = current_lp->rng_ctx->state;
	return vm_mix(vm_mix(st[0], st[1]), vm_mix(st[2], st[3]));
}
static uint64_t last_h;
static bool last_pred, got_event;
static void rx_on_event(uint64_t me, double now, unsigned type, const void *pl, unsigned size, uint64_t h_after, bool pred)
{
	(void)me, (void)now, (void)type, (void)pl, (void)size;
	last_h = h_after;
	last_pred = pred;
	got_event = true;
}
static void rx_on_init(uint64_t me, uint64_t h_after, bool pred)
{
	RX->h_init[me] = h_after;
	RX->pred_init[me] = pred;
}

static const struct vm_env rx_env = {
    .schedule = rx_schedule, .alloc = rx_alloc, .realloc_ = rx_realloc, .free_ = rx_free, .set_state = rx_set_state,
    .u64 = rx_u64, .random = rx_random, .expent = rx_expent, .normal = rx_normal, .gamma = rx_gamma, .zipf = rx_zipf,
    .range = rx_range, .stop = rx_stop, .rng_hash = rx_rng_hash, .on_event = rx_on_event, .on_init = rx_on_init, .on_fini = NULL};


void rx_run(struct rx_result *out, uint64_t prng_seed)
{
	const struct vm_env *saved_env = vm_env;
	struct lp_ctx *saved_lp = current_lp;
	uint64_t saved_seed = global_config.prng_seed;
	memset(out, 0, sizeof *out);
	RX = out;
	vm_env = &rx_env;
	head = NULL;
	out->n_lps = VM.n_lps;
	global_config.prng_seed = prng_seed;
	for(unsigned i = 0; i < VM.n_lps; ++i) {
		rx_lp[i].rng_ctx = &rx_rng[i];
		random_lib_lp_init(i, &rx_rng[i]);
		struct rng_ctx peekc = rx_rng[i];
		struct lp_ctx peeklp = {.rng_ctx = &peekc};
		current_lp = &peeklp;
		for(int k = 0; k < 4; ++k)
			out->rng_first[i][k] = RandomU64();
		out->first_true[i] = -2;
	}
	/* LP_INIT for every LP, in id order, at time 0 */
	for(unsigned i = 0; i < VM.n_lps; ++i) {
		cur_lp = i;
		current_lp = &rx_lp[i];
		vm_process_event(i, 0.0, LP_INIT, NULL, 0, NULL);
		if(out->pred_init[i])
			out->first_true[i] = -1;
	}
	while(head) {
		struct node *n = head;
		head = n->next;
		struct lp_msg *m = n->m;
		free(n);
		if(out->n >= RX_MAXEV || out->per_lp_n[m->dest] >= RX_MAXEV / 2) {
			out->overflow = true;
			free(m);
			break;
		}
		cur_lp = m->dest;
		current_lp = &rx_lp[m->dest];
		got_event = false;
		vm_process_event(m->dest, m->dest_t, m->m_type, m->pl, m->pl_size, rx_state[m->dest]);
		struct rx_event *e = &out->ev[out->n];
		e->lp = m->dest;
		e->t = m->dest_t;
		e->type = m->m_type;
		e->size = m->pl_size;
		e->plh = vm_payload_hash(m->pl, m->pl_size);
		e->ignored = !got_event;
		cur_ignored = e->ignored;
		if(got_event) {
			e->h_after = last_h;
			e->pred_after = last_pred;
		} else {
			e->h_after = vm_full_digest(rx_state[m->dest]);
			e->pred_after = vm_can_end(m->dest, rx_state[m->dest]);
		}
		unsigned k = out->per_lp_n[m->dest]++;
		out->per_lp[m->dest][k] = out->n;
		if(e->pred_after && out->first_true[m->dest] == -2) {
			out->first_true[m->dest] = (int)k;
			if(e->t > out->t_all_hold)
				out->t_all_hold = e->t;
		}
		out->n++;
		free(m);
	}
	while(head) {
		struct node *n = head;
		head = n->next;
		free(n->m);
		free(n);
	}
	out->all_pred_hold = true;
	for(unsigned i = 0; i < VM.n_lps; ++i) {
		cur_lp = i;
		current_lp = &rx_lp[i];
		out->h_final[i] = vm_full_digest(rx_state[i]);
		if(out->first_true[i] == -2)
			out->all_pred_hold = false;
		struct vm_state *s = rx_state[i];
		for(int b = 0; b < VM_NBUF; ++b)
			free(s->buf[b]);
		free(s);
		rx_state[i] = NULL;
	}
	vm_env = saved_env;
	current_lp = saved_lp;
	global_config.prng_seed = saved_seed;
}
