/* Fake MPI: just enough of MPI-3.1 for ROOT-Sim's distributed/mpi.c, implemented in-process on top of
 * rsched (engine/fakempi/fakempi.c).  All ranks live in one process; the calling thread's rank is rs_rank(). */
#ifndef FAKE_MPI_H
#define FAKE_MPI_H
#include <stddef.h>

typedef int MPI_Comm;
typedef int MPI_Datatype;
typedef int MPI_Op;
typedef int MPI_Errhandler;
typedef struct fmpi_req *MPI_Request;
typedef struct fmpi_msg *MPI_Message;
typedef struct {
	int MPI_SOURCE, MPI_TAG, MPI_ERROR;
	int count;
} MPI_Status;
typedef void MPI_Comm_errhandler_function(MPI_Comm *, int *, ...);

#define MPI_COMM_WORLD 0
#define MPI_BYTE 1
#define MPI_UINT32_T 2
#define MPI_DOUBLE 3
#define MPI_SUM 1
#define MPI_MIN 2
#define MPI_ANY_SOURCE (-1)
#define MPI_STATUS_IGNORE ((MPI_Status *)0)
#define MPI_REQUEST_NULL ((MPI_Request)0)
#define MPI_THREAD_SINGLE 0
#define MPI_THREAD_MULTIPLE 3
#define MPI_MAX_ERROR_STRING 256
#define MPI_SUCCESS 0

int MPI_Init_thread(int *argc, char ***argv, int required, int *provided);
int MPI_Finalize(void);
int MPI_Comm_create_errhandler(MPI_Comm_errhandler_function *f, MPI_Errhandler *e);
int MPI_Comm_set_errhandler(MPI_Comm c, MPI_Errhandler e);
int MPI_Comm_get_errhandler(MPI_Comm c, MPI_Errhandler *e);
int MPI_Errhandler_free(MPI_Errhandler *e);
int MPI_Error_string(int code, char *s, int *len);
int MPI_Comm_rank(MPI_Comm c, int *rank);
int MPI_Comm_size(MPI_Comm c, int *size);
int MPI_Isend(const void *buf, int count, MPI_Datatype dt, int dest, int tag, MPI_Comm c, MPI_Request *req);
int MPI_Send(const void *buf, int count, MPI_Datatype dt, int dest, int tag, MPI_Comm c);
int MPI_Request_free(MPI_Request *req);
int MPI_Improbe(int source, int tag, MPI_Comm c, int *flag, MPI_Message *msg, MPI_Status *st);
int MPI_Mprobe(int source, int tag, MPI_Comm c, MPI_Message *msg, MPI_Status *st);
int MPI_Get_count(const MPI_Status *st, MPI_Datatype dt, int *count);
int MPI_Mrecv(void *buf, int count, MPI_Datatype dt, MPI_Message *msg, MPI_Status *st);
int MPI_Ireduce_scatter_block(const void *sendbuf, void *recvbuf, int recvcount, MPI_Datatype dt, MPI_Op op, MPI_Comm c,
    MPI_Request *req);
int MPI_Iallreduce(const void *sendbuf, void *recvbuf, int count, MPI_Datatype dt, MPI_Op op, MPI_Comm c, MPI_Request *req);
int MPI_Test(MPI_Request *req, int *flag, MPI_Status *st);
int MPI_Barrier(MPI_Comm c);

/* harness-facing interface */
void fmpi_reset(int n_ranks);
int fmpi_in_flight(void);
int fmpi_release_held(void);                   /* quiescence: release messages held back by a delivery deviation */                      /* messages sent and not yet received (tag 0) */
double fmpi_min_in_flight_time(void);          /* smallest lp_msg timestamp among in-flight model messages, or +inf */
int fmpi_buffer_in_flight(const void *lo, const void *hi); /* is a pending send still referencing [lo,hi)? */
#endif
