/* fakempi.c - in-process MPI for the verification harnesses (see mpi.h and DESIGN.md 2.1).
 * Semantics: per (sender thread -> destination rank, tag) FIFO; messages of different sender threads may be
 * matched in any order; a message may stay invisible to MPI_Improbe for a finite time; a non-blocking collective
 * completes at any time after every rank posted it.  Default answers: oldest pending message in global send order,
 * visible at once; collectives complete as soon as everybody posted.  Every other answer is a counted deviation
 * (rs_choose). Payloads are copied at send time (eager protocol). */
#include "mpi.h"
#include "../rsched.h"
#include <math.h>
#include <stdint.h>
#include <stdio.h>
#include <stdlib.h>
#include <string.h>

#define MAXR 4
#define MAXPEND 512

struct fmpi_msg {
	int used, src_rank, src_thread, dest, tag, size;
	int hold; /* polls of the destination rank during which the message stays invisible */
	uint64_t seq;
	const void *userbuf;
	unsigned char *data;
};
static struct fmpi_msg pend[MAXPEND];
static uint64_t sendseq;
static int NR = 1;
static volatile uint64_t mailbox_version[MAXR];

struct coll {
	int posted[MAXR];
	int done[MAXR];
	uint32_t sum_in[MAXR][MAXR];
	double min_in[MAXR];
	void *out[MAXR];
};
#define MAXCOLL 65536
static struct coll *rs_coll, *ar_coll; /* reduce-scatter and allreduce instances, matched by per-rank post order */
static int rs_next[MAXR], ar_next[MAXR];
struct fmpi_req {
	int kind; /* 1 reduce-scatter, 2 allreduce */
	int idx, rank;
};
static volatile uint64_t coll_version;
static volatile uint64_t barrier_gen;
static int barrier_cnt;

void fmpi_reset(int n_ranks)
{
	NR = n_ranks;
	memset(pend, 0, sizeof pend);
	if(!rs_coll) {
		rs_coll = calloc(MAXCOLL, sizeof *rs_coll);
		ar_coll = calloc(MAXCOLL, sizeof *ar_coll);
	}
}

int MPI_Init_thread(int *argc, char ***argv, int required, int *provided)
{
	(void)argc, (void)argv;
	*provided = required;
	return 0;
}
int MPI_Finalize(void) { return 0; }
int MPI_Comm_create_errhandler(MPI_Comm_errhandler_function *f, MPI_Errhandler *e) { (void)f; *e = 1; return 0; }
int MPI_Comm_set_errhandler(MPI_Comm c, MPI_Errhandler e) { (void)c, (void)e; return 0; }
int MPI_Comm_get_errhandler(MPI_Comm c, MPI_Errhandler *e) { (void)c; *e = 1; return 0; }
int MPI_Errhandler_free(MPI_Errhandler *e) { *e = 0; return 0; }
int MPI_Error_string(int code, char *s, int *len) { *len = snprintf(s, 64, "fake MPI error %d", code); return 0; }
int MPI_Comm_rank(MPI_Comm c, int *rank) { (void)c; *rank = rs_rank(); return 0; }
int MPI_Comm_size(MPI_Comm c, int *size) { (void)c; *size = NR; return 0; }

static int do_send(const void *buf, int count, int dest, int tag)
{
	for(int i = 0; i < MAXPEND; ++i)
		if(!pend[i].used) {
			struct fmpi_msg *m = &pend[i];
			m->used = 1;
			m->src_rank = rs_rank();
			m->src_thread = rs_self();
			m->dest = dest;
			m->tag = tag;
			m->size = count;
			m->seq = ++sendseq;
			m->hold = 0;
			m->userbuf = buf;
			m->data = malloc((size_t)count + 1);
			memcpy(m->data, buf, (size_t)count);
			mailbox_version[dest]++;
			rs_effect();
			if(getenv("FMPI_DEBUG")) {
				unsigned fl = 0;
				double t = 0;
				if(count > 20) {
					memcpy(&fl, (const char *)buf + 16, 4);
					memcpy(&t, (const char *)buf + 8, 8);
				}
				rs_logf("[S r%d->r%d sz%d t=%g fl=%x] ", m->src_rank, dest, count, t, fl);
			}
			return 0;
		}
	rs_engine_error("fake MPI: too many pending messages");
}

int MPI_Isend(const void *buf, int count, MPI_Datatype dt, int dest, int tag, MPI_Comm c, MPI_Request *req)
{
	(void)dt, (void)c;
	*req = NULL;
	return do_send(buf, count, dest, tag);
}
int MPI_Send(const void *buf, int count, MPI_Datatype dt, int dest, int tag, MPI_Comm c)
{
	(void)dt, (void)c;
	return do_send(buf, count, dest, tag);
}
int MPI_Request_free(MPI_Request *req)
{
	*req = NULL;
	return 0;
}

/* heads of the per-sender-thread FIFOs addressed to (rank, tag), oldest first */
static int candidates(int rank, int tag, int source, struct fmpi_msg **out)
{
	int n = 0;
	for(int i = 0; i < MAXPEND; ++i) {
		struct fmpi_msg *m = &pend[i];
		if(!m->used || m->dest != rank || m->tag != tag || (source >= 0 && m->src_rank != source))
			continue;
		/* is it the head of its sender's channel? */
		int head = 1;
		for(int j = 0; j < MAXPEND && head; ++j)
			if(pend[j].used && pend[j].dest == rank && pend[j].tag == tag && pend[j].src_thread == m->src_thread &&
			    pend[j].seq < m->seq)
				head = 0;
		if(head && m->hold > 0)
			continue; /* held back: the whole channel waits (non-overtaking) */
		if(head && n < 16)
			out[n++] = m;
	}
	for(int i = 0; i < n; ++i)
		for(int j = i + 1; j < n; ++j)
			if(out[j]->seq < out[i]->seq) {
				struct fmpi_msg *t = out[i];
				out[i] = out[j];
				out[j] = t;
			}
	return n;
}

int MPI_Improbe(int source, int tag, MPI_Comm c, int *flag, MPI_Message *msg, MPI_Status *st)
{
	(void)c;
	int rank = rs_rank();
	struct fmpi_msg *cand[16];
	/* every poll of this rank brings held messages one step closer to visibility */
	for(int i = 0; i < MAXPEND; ++i)
		if(pend[i].used == 1 && pend[i].dest == rank && pend[i].tag == tag && pend[i].hold > 0)
			if(--pend[i].hold == 0)
				rs_effect();
	int n = candidates(rank, tag, source, cand);
	if(!n) {
		*flag = 0;
		rs_env_load(&mailbox_version[rank], 8, "MPI_Improbe");
		return 0;
	}
	/* 0: oldest; 1..n-1: the head of another sender's channel first; n: nothing visible at this poll;
	 * n+1: the oldest message stays invisible for 16 further polls of this rank, or until every thread is parked
	 * (a long but finite delay) */
	int ch = rs_choose(n + 2, "MPI_Improbe");
	if(ch > n) {
		cand[0]->hold = 16;
		rs_count(43, 1);
		ch = n;
	}
	if(ch == n) {
		static volatile uint64_t invisible_ctr;
		*flag = 0;
		rs_count(40, 1);
		invisible_ctr++; /* a pending message exists: the poll must not look like a stable idle lap */
		rs_env_load(&invisible_ctr, 8, "MPI_Improbe-invisible");
		return 0;
	}
	if(ch)
		rs_count(41, 1);
	*flag = 1;
	*msg = cand[ch];
	st->MPI_SOURCE = cand[ch]->src_rank;
	st->MPI_TAG = tag;
	st->count = cand[ch]->size;
	cand[ch]->used = 2; /* matched, no longer probe-able */
	return 0;
}

int MPI_Mprobe(int source, int tag, MPI_Comm c, MPI_Message *msg, MPI_Status *st)
{
	for(;;) {
		int flag;
		MPI_Improbe(source, tag, c, &flag, msg, st);
		if(flag)
			return 0;
		rs_point("MPI_Mprobe");
	}
}

int MPI_Get_count(const MPI_Status *st, MPI_Datatype dt, int *count)
{
	(void)dt;
	*count = st->count;
	return 0;
}

int MPI_Mrecv(void *buf, int count, MPI_Datatype dt, MPI_Message *msg, MPI_Status *st)
{
	(void)dt, (void)st;
	struct fmpi_msg *m = *msg;
	if(count < m->size)
		rs_fail("MPI_Mrecv: receive buffer (%d) smaller than the message (%d)", count, m->size);
	memcpy(buf, m->data, (size_t)m->size);
	if(getenv("FMPI_DEBUG"))
		rs_logf("[R r%d<-r%d sz%d] ", m->dest, m->src_rank, m->size);
	free(m->data);
	m->data = NULL;
	m->used = 0;
	rs_effect();
	return 0;
}

/* called by the scheduler when every thread is parked: whatever is still held back becomes visible now */
int fmpi_release_held(void)
{
	int any = 0;
	for(int i = 0; i < MAXPEND; ++i)
		if(pend[i].used == 1 && pend[i].hold > 0) {
			pend[i].hold = 0;
			mailbox_version[pend[i].dest]++;
			any = 1;
		}
	return any;
}

int fmpi_in_flight(void)
{
	int n = 0;
	for(int i = 0; i < MAXPEND; ++i)
		n += pend[i].used == 1 && pend[i].tag == 0;
	return n;
}

int fmpi_buffer_in_flight(const void *lo, const void *hi)
{
	for(int i = 0; i < MAXPEND; ++i)
		if(pend[i].used == 1 && pend[i].userbuf >= lo && pend[i].userbuf < hi)
			return 1;
	return 0;
}

/* model messages carry (dest, dest_t, ...) at the start of the transmitted region */
double fmpi_min_in_flight_time(void)
{
	double mn = INFINITY;
	for(int i = 0; i < MAXPEND; ++i)
		if(pend[i].used == 1 && pend[i].tag == 0 && pend[i].size > 8) {
			double t;
			memcpy(&t, pend[i].data + 8, 8);
			if(t < mn)
				mn = t;
		}
	return mn;
}

/* ---- non-blocking collectives ---- */
static struct fmpi_req reqpool[64];
static int reqn;

int MPI_Ireduce_scatter_block(const void *sendbuf, void *recvbuf, int recvcount, MPI_Datatype dt, MPI_Op op, MPI_Comm c,
    MPI_Request *req)
{
	(void)recvcount, (void)dt, (void)op, (void)c;
	int r = rs_rank(), k = rs_next[r]++;
	if(k >= MAXCOLL)
		rs_engine_error("fake MPI: too many collectives");
	struct coll *co = &rs_coll[k];
	memcpy(co->sum_in[r], sendbuf, sizeof(uint32_t) * (size_t)NR);
	co->out[r] = recvbuf;
	co->posted[r] = 1;
	struct fmpi_req *q = &reqpool[reqn++ % 64];
	q->kind = 1, q->idx = k, q->rank = r;
	*req = q;
	coll_version++;
	rs_effect();
	return 0;
}

int MPI_Iallreduce(const void *sendbuf, void *recvbuf, int count, MPI_Datatype dt, MPI_Op op, MPI_Comm c, MPI_Request *req)
{
	(void)count, (void)dt, (void)op, (void)c;
	int r = rs_rank(), k = ar_next[r]++;
	if(k >= MAXCOLL)
		rs_engine_error("fake MPI: too many collectives");
	struct coll *co = &ar_coll[k];
	memcpy(&co->min_in[r], sendbuf, sizeof(double));
	co->out[r] = recvbuf;
	co->posted[r] = 1;
	struct fmpi_req *q = &reqpool[reqn++ % 64];
	q->kind = 2, q->idx = k, q->rank = r;
	*req = q;
	coll_version++;
	rs_effect();
	return 0;
}

int MPI_Test(MPI_Request *req, int *flag, MPI_Status *st)
{
	(void)st;
	struct fmpi_req *q = *req;
	if(!q) {
		*flag = 1;
		return 0;
	}
	struct coll *co = q->kind == 1 ? &rs_coll[q->idx] : &ar_coll[q->idx];
	int all = 1;
	for(int r = 0; r < NR; ++r)
		all &= co->posted[r];
	if(!all) {
		*flag = 0;
		rs_env_load(&coll_version, 8, "MPI_Test");
		return 0;
	}
	/* completable: default completes now, the deviation delays it */
	if(rs_choose(2, "MPI_Test") == 1) {
		*flag = 0;
		rs_count(42, 1);
		return 0;
	}
	int r = q->rank;
	if(q->kind == 1) {
		uint32_t s = 0;
		for(int x = 0; x < NR; ++x)
			s += co->sum_in[x][r];
		memcpy(co->out[r], &s, sizeof s);
	} else {
		double m = co->min_in[0];
		for(int x = 1; x < NR; ++x)
			m = co->min_in[x] < m ? co->min_in[x] : m;
		memcpy(co->out[r], &m, sizeof m);
	}
	co->done[r] = 1;
	*req = NULL;
	*flag = 1;
	rs_effect();
	return 0;
}

int MPI_Barrier(MPI_Comm c)
{
	(void)c;
	uint64_t g = barrier_gen;
	if(++barrier_cnt == NR) {
		barrier_cnt = 0;
		barrier_gen++;
		rs_effect();
		return 0;
	}
	rs_effect();
	while(barrier_gen == g) {
		rs_env_load(&barrier_gen, 8, "MPI_Barrier");
		rs_point("MPI_Barrier");
	}
	return 0;
}
