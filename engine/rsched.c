/* rsched.c - deterministic cooperative scheduler over real pthreads (futex hand-off,
 * exactly one thread runnable at a time) + exhaustive explorer over choice sequences
 * (fork per execution, cost-levelled breadth-first over the number of non-default
 * choices, optional stateful pruning on a harness-supplied complete-state digest).
 *
 * Compiled WITHOUT sanitizers (it peeks at memory other threads own).
 */
#define _GNU_SOURCE
#include "rsched.h"

#include <errno.h>
#include <fcntl.h>
#include <linux/futex.h>
#include <pthread.h>
#include <signal.h>
#include <stdarg.h>
#include <stdio.h>
#include <stdlib.h>
#include <string.h>
#include <sys/mman.h>
#include <sys/personality.h>
#include <sys/syscall.h>
#include <sys/time.h>
#include <sys/wait.h>
#include <time.h>
#include <unistd.h>

#include "vy.h"

/* ------------------------------------------------------------------ limits */
#define MAXPTS (1u << 17)   /* choice points per execution */
#define LOGN 512            /* op log per thread since last effect */
#define RSN 256             /* read set of a parked thread */
#define MAXPAIRS 4096       /* non-default choices in one prefix */
#define LOGTXT (1u << 16)
#define MAXSIG 64           /* distinct violation signatures kept */
#define MAXW 64

enum { K_SCHED = 0, K_ENV = 1 };
enum { T_UNUSED = 0, T_RUNNABLE, T_PARKED, T_JOIN, T_DONE };

struct point {
	uint64_t digest;
	uint16_t nalt;
	uint16_t chosen;
	uint8_t kind;
};

struct pair {
	uint32_t idx;
	uint16_t alt;
	uint16_t nalt;
};

/* result of one execution, in memory shared between child and worker */
struct result {
	volatile int status;
	volatile int written;
	char msg[768];
	uint64_t obs;
	uint64_t steps;
	uint64_t effects;
	uint64_t counters[RS_NCOUNTERS];
	uint32_t npoints;
	uint32_t logtxt_len;
	char logtxt[LOGTXT];
	struct point pts[MAXPTS];
};

struct oprec {
	const char *file;
	int line;
	const volatile void *addr;
	uint64_t val;
	uint32_t size;
	uint32_t rep;
	int nochange; /* the operation was an RMW/store that left the value as it was */
};

struct rs_thread {
	int id, state;
	int fut;
	pthread_t pt;
	void *(*fn)(void *);
	void *arg;
	int join_target;
	int rank;
	int no_park;
	const char *role;
	int frozen; /* scheduling decisions during which the thread is not eligible (a long stall chosen by the explorer) */
	const char *file;
	int line;
	uint64_t pre_val;
	struct oprec log[LOGN];
	int nlog;
	struct oprec rs[RSN];
	int nrs;
};

/* ------------------------------------------------------------------ globals */
static const struct rs_harness *H;
static int g_argc;
static char **g_argv;

/* options */
static int opt_freeze = 0; /* > 0: extra alternative at scheduling points: stall the running thread for that many decisions */
static int opt_p = 1, opt_d = 0, opt_j = 1, opt_stateful = 0, opt_spurious = 0, opt_verbose = 0, opt_postpoints = 0;
static long opt_budget = 2000000, opt_exec_timeout = 60;
static double opt_deadline = 0;
static int opt_maxlevel = -1;
static const char *opt_out, *opt_replay_dir = ".", *opt_replay, *opt_id = "run";
static long opt_max_exec = 0;

/* child-side state */
static struct rs_thread TH[RS_MAXT];
static int nth;
static int cur;
static __thread struct rs_thread *me;
static int g_active;
static struct result *R;
static const struct pair *pfx;
static uint32_t pfx_n, pfx_len;
static uint32_t pfx_pos;
static uint64_t steps, effects_total;
static int confirm_rounds, fruitless_jumps;
static volatile uint64_t clock_epoch;
static uint64_t vclock = 1000000;
static uint64_t clock_jump = (1ull << 33);
static uint64_t obs_hash = 0x1234567;
static int finishing;
static int sub_choice; /* choice points since the last hooked operation: keeps consecutive points in one state apart */

/* shared between all processes of one exploration */
struct shared {
	uint64_t cursor;
	int stop;
	uint64_t *visited;
	uint64_t visited_mask;
	uint64_t *obsset;
	uint64_t obsset_mask;
	uint64_t *digset;
	uint64_t digset_mask;
	uint64_t n_visited, n_obs, n_dig;
	uint64_t executions;
};
static struct shared *SH;

/* ------------------------------------------------------------------ utils */
static double now_s(void)
{
	struct timespec ts;
	clock_gettime(CLOCK_MONOTONIC, &ts);
	return ts.tv_sec + ts.tv_nsec * 1e-9;
}

static void fut_wake(int *f)
{
	__atomic_store_n(f, 1, __ATOMIC_SEQ_CST);
	syscall(SYS_futex, f, FUTEX_WAKE_PRIVATE, 1, NULL, NULL, 0);
}

static void fut_wait(int *f)
{
	while(__atomic_load_n(f, __ATOMIC_SEQ_CST) == 0)
		syscall(SYS_futex, f, FUTEX_WAIT_PRIVATE, 0, NULL, NULL, 0);
	__atomic_store_n(f, 0, __ATOMIC_SEQ_CST);
}

static uint64_t peek(const volatile void *a, unsigned size)
{
	switch(size) {
		case 1:
			return *(const volatile uint8_t *)a;
		case 2:
			return *(const volatile uint16_t *)a;
		case 4:
			return *(const volatile uint32_t *)a;
		default:
			return *(const volatile uint64_t *)a;
	}
}

/* lock-free insert into an open-addressing set of non-zero 64-bit keys; returns 1 if new */
static int set_insert(uint64_t *tab, uint64_t mask, uint64_t key, uint64_t *cnt)
{
	if(!key)
		key = 1;
	uint64_t i = (key * 0x9e3779b97f4a7c15ULL) >> 20 & mask;
	for(uint64_t probes = 0; probes <= mask; ++probes, i = (i + 1) & mask) {
		uint64_t v = __atomic_load_n(&tab[i], __ATOMIC_RELAXED);
		if(v == key)
			return 0;
		if(v == 0) {
			uint64_t exp = 0;
			if(__atomic_compare_exchange_n(&tab[i], &exp, key, 0, __ATOMIC_SEQ_CST, __ATOMIC_SEQ_CST)) {
				__atomic_fetch_add(cnt, 1, __ATOMIC_RELAXED);
				return 1;
			}
			if(exp == key)
				return 0;
		}
	}
	fprintf(stderr, "rsched: hash set full\n");
	_exit(2);
}

static int set_contains(uint64_t *tab, uint64_t mask, uint64_t key)
{
	if(!key)
		key = 1;
	uint64_t i = (key * 0x9e3779b97f4a7c15ULL) >> 20 & mask;
	for(;; i = (i + 1) & mask) {
		uint64_t v = __atomic_load_n(&tab[i], __ATOMIC_RELAXED);
		if(v == key)
			return 1;
		if(v == 0)
			return 0;
	}
}

/* ------------------------------------------------------------------ verdicts */
static void finish(int status, const char *msg) __attribute__((noreturn));
static void finish(int status, const char *msg)
{
	if(__atomic_exchange_n(&finishing, 1, __ATOMIC_SEQ_CST)) {
		/* a second thread cannot get here: only one runs at a time */
		for(;;)
			pause();
	}
	g_active = 0;
	R->status = status;
	if(msg) {
		strncpy(R->msg, msg, sizeof(R->msg) - 1);
		R->msg[sizeof(R->msg) - 1] = 0;
	}
	R->obs = obs_hash;
	R->steps = steps;
	R->effects = effects_total;
	R->written = 1;
	_exit(0);
}

void rs_fail(const char *fmt, ...)
{
	char b[768];
	va_list ap;
	va_start(ap, fmt);
	vsnprintf(b, sizeof b, fmt, ap);
	va_end(ap);
	if(!R) {
		fprintf(stderr, "rs_fail outside execution: %s\n", b);
		_exit(3);
	}
	finish(RS_VIOLATION, b);
}

void rs_engine_error(const char *fmt, ...)
{
	char b[768];
	va_list ap;
	va_start(ap, fmt);
	vsnprintf(b, sizeof b, fmt, ap);
	va_end(ap);
	if(!R) {
		fprintf(stderr, "rsched engine error: %s\n", b);
		_exit(2);
	}
	finish(RS_ENGINE_ERROR, b);
}

void rs_end_ok(void)
{
	finish(RS_OK, NULL);
}

void rs_count(int k, uint64_t n)
{
	if(R && k >= 0 && k < RS_NCOUNTERS)
		R->counters[k] += n;
}

void rs_count_max(int k, uint64_t n)
{
	if(R && k >= 0 && k < RS_NCOUNTERS && R->counters[k] < n)
		R->counters[k] = n;
}

void rs_obs(uint64_t x)
{
	obs_hash = rs_mix(obs_hash, x);
}

void rs_logf(const char *fmt, ...)
{
	if(!R)
		return;
	va_list ap;
	va_start(ap, fmt);
	uint32_t l = R->logtxt_len;
	if(l < LOGTXT - 2) {
		int n = vsnprintf(R->logtxt + l, LOGTXT - 1 - l, fmt, ap);
		if(n > 0)
			R->logtxt_len = (l + (uint32_t)n < LOGTXT - 1) ? l + (uint32_t)n : LOGTXT - 1;
	}
	va_end(ap);
}

int rs_self(void)
{
	return me ? me->id : 0;
}
int rs_active(void)
{
	return g_active && me != NULL;
}
void rs_set_role(const char *role)
{
	if(me)
		me->role = role;
}
void rs_set_rank(int rank)
{
	if(me)
		me->rank = rank;
}
int rs_rank(void)
{
	return me ? me->rank : 0;
}
uint64_t rs_steps(void)
{
	return steps;
}
void rs_no_park(int on)
{
	if(me)
		me->no_park = on;
}

const char *rs_param(const char *key, const char *dflt)
{
	size_t kl = strlen(key);
	for(int i = 1; i < g_argc; ++i)
		if(!strncmp(g_argv[i], key, kl) && g_argv[i][kl] == '=')
			return g_argv[i] + kl + 1;
	return dflt;
}

long rs_param_int(const char *key, long dflt)
{
	const char *v = rs_param(key, NULL);
	return v ? strtol(v, NULL, 0) : dflt;
}

/* ------------------------------------------------------------------ scheduling core */
static void deadlock_report(void) __attribute__((noreturn));
static void deadlock_report(void)
{
	char b[768];
	int l = snprintf(b, sizeof b, "deadlock:");
	/* canonical shape: the sorted set of (role, site) pairs the live threads are stuck at */
	char ent[RS_MAXT][96];
	int ne = 0;
	for(int i = 0; i < nth; ++i) {
		struct rs_thread *t = &TH[i];
		if(t->state == T_DONE || t->state == T_UNUSED)
			continue;
		const char *f = t->file ? t->file : "?";
		const char *s = strrchr(f, '/');
		char e[96];
		if(t->state == T_JOIN)
			snprintf(e, sizeof e, "[%s(join)]", t->role ? t->role : "thr");
		else
			snprintf(e, sizeof e, "[%s@%s:%d]", t->role ? t->role : "thr", s ? s + 1 : f, t->line);
		int dup = 0;
		for(int k = 0; k < ne; ++k)
			dup |= !strcmp(ent[k], e);
		if(!dup)
			strcpy(ent[ne++], e);
	}
	for(int i = 0; i < ne; ++i)
		for(int j = i + 1; j < ne; ++j)
			if(strcmp(ent[j], ent[i]) < 0) {
				char tmp[96];
				strcpy(tmp, ent[i]);
				strcpy(ent[i], ent[j]);
				strcpy(ent[j], tmp);
			}
	for(int i = 0; i < ne && l < (int)sizeof(b) - 100; ++i)
		l += snprintf(b + l, sizeof(b) - (size_t)l, " %s", ent[i]);
	if(H->describe && l < (int)sizeof(b) - 100) {
		l += snprintf(b + l, sizeof(b) - l, " | ");
		H->describe(b + l, sizeof(b) - (size_t)l);
	}
	finish(RS_DEADLOCK, b);
}

static void unpark_check(void)
{
	for(int i = 0; i < nth; ++i) {
		struct rs_thread *t = &TH[i];
		if(t->state != T_PARKED)
			continue;
		for(int k = 0; k < t->nrs; ++k)
			if(peek(t->rs[k].addr, t->rs[k].size) != t->rs[k].val) {
				t->state = T_RUNNABLE;
				t->nlog = 0;
				break;
			}
	}
}

static void do_effect(void)
{
	if(me)
		me->nlog = 0;
	effects_total++;
	confirm_rounds = 0;
	fruitless_jumps = 0;
	unpark_check();
}

void rs_effect(void)
{
	if(rs_active())
		do_effect();
}

static uint64_t engine_digest(void)
{
	uint64_t h = H->digest ? H->digest() : 0;
	h = rs_mix(h, (uint64_t)cur);
	for(int i = 0; i < nth; ++i) {
		h = rs_mix(h, (uint64_t)TH[i].state);
		h = rs_mix(h, (uint64_t)TH[i].line);
	}
	return h;
}

static void budget_report(void) __attribute__((noreturn));
static void budget_report(void)
{
	char b[600];
	const char *f = me && me->file ? me->file : "?";
	const char *sl = strrchr(f, '/');
	int l = snprintf(b, sizeof b, "step budget exhausted (livelock?), last in [%s@%s]", me && me->role ? me->role : "thr", sl ? sl + 1 : f);
	if(H->describe) {
		l += snprintf(b + l, sizeof(b) - (size_t)l, " | ");
		H->describe(b + l, sizeof(b) - (size_t)l);
	}
	finish(RS_BUDGET, b);
}

/* consult the choice sequence: n alternatives, default 0 */
static int next_choice(int n, int kind)
{
	if(n < 2)
		return 0;
	uint32_t i = R->npoints;
	if(i >= MAXPTS) {
		/* as good as an exhausted step budget: the execution does not come to an end */
		budget_report();
	}
	int c = 0;
	uint64_t dg = opt_stateful ? rs_mix(engine_digest(), (uint64_t)kind * 64 + (uint64_t)sub_choice) : 0;
	sub_choice++;
	if(i < pfx_len) {
		while(pfx_pos < pfx_n && pfx[pfx_pos].idx < i)
			pfx_pos++;
		if(pfx_pos < pfx_n && pfx[pfx_pos].idx == i) {
			c = pfx[pfx_pos].alt;
			if(pfx[pfx_pos].nalt != n || c >= n)
				rs_engine_error("replay divergence at point %u: recorded %u alternatives, now %d", i,
				    pfx[pfx_pos].nalt, n);
		}
	} else if(opt_stateful) {
		/* default continuation beyond the forced prefix: stop if (state, default) was expanded before */
		if(!set_insert(SH->visited, SH->visited_mask, rs_mix(dg, 0), &SH->n_visited)) {
			R->npoints = i; /* this point is not part of the trace */
			finish(RS_PRUNED, NULL);
		}
		set_insert(SH->digset, SH->digset_mask, dg, &SH->n_dig);
	}
	R->pts[i].digest = dg;
	R->pts[i].nalt = (uint16_t)n;
	R->pts[i].chosen = (uint16_t)c;
	R->pts[i].kind = (uint8_t)kind;
	R->npoints = i + 1;
	return c;
}

static void switch_to(int t)
{
	struct rs_thread *self = me;
	cur = t;
	if(&TH[t] == self)
		return;
	fut_wake(&TH[t].fut);
	if(self->state != T_DONE)
		fut_wait(&self->fut);
}

/* build the list of runnable threads in canonical order: current first if runnable,
 * then round-robin after the current one */
static int enabled_list(int *out)
{
	int n = 0;
	if(TH[cur].state == T_RUNNABLE && !TH[cur].frozen)
		out[n++] = cur;
	for(int k = 1; k < nth; ++k) {
		int t = (cur + k) % nth;
		if(TH[t].state == T_RUNNABLE && !TH[t].frozen)
			out[n++] = t;
	}
	if(!n) {
		/* only stalled threads are left: the stall ends */
		int any = 0;
		for(int t = 0; t < nth; ++t)
			if(TH[t].frozen) {
				TH[t].frozen = 0;
				any = 1;
			}
		if(any)
			return enabled_list(out);
	}
	return n;
}

static void quiesce(void)
{
	for(;;) {
		for(int i = 0; i < nth; ++i)
			if(TH[i].state == T_RUNNABLE)
				return;
		if(H->on_quiesce && H->on_quiesce()) {
			unpark_check();
			continue;
		}
		int clk = 0;
		for(int i = 0; i < nth && !clk; ++i)
			if(TH[i].state == T_PARKED)
				for(int k = 0; k < TH[i].nrs; ++k)
					if(TH[i].rs[k].addr == (const volatile void *)&clock_epoch)
						clk = 1;
		if(clk && fruitless_jumps < 2) {
			fruitless_jumps++;
			clock_epoch++;
			vclock += clock_jump;
			rs_count(RS_NCOUNTERS - 1, 1);
			unpark_check();
			continue;
		}
		if(confirm_rounds < 2) {
			confirm_rounds++;
			int any = 0;
			for(int i = 0; i < nth; ++i)
				if(TH[i].state == T_PARKED) {
					TH[i].state = T_RUNNABLE;
					TH[i].nlog = 0;
					any = 1;
				}
			if(any)
				continue;
		}
		deadlock_report();
	}
}

/* the running thread cannot continue (parked, blocked or done): hand over */
static void yield_blocked(void)
{
	quiesce();
	int en[RS_MAXT];
	int n = enabled_list(en);
	int c = next_choice(n, K_SCHED);
	switch_to(en[c]);
}

static void thaw_tick(void)
{
	for(int t = 0; t < nth; ++t)
		if(TH[t].frozen > 0)
			TH[t].frozen--;
}

static void sched_point(void)
{
	thaw_tick();
	if(++steps > (uint64_t)opt_budget || R->npoints > (uint64_t)opt_budget)
		budget_report();
	int en[RS_MAXT];
	int n = enabled_list(en);
	if(n < 2)
		return;
	/* optional extra alternative: stall the running thread for opt_freeze decisions and run the next one */
	int can_freeze = opt_freeze > 0 && en[0] == cur;
	int c = next_choice(n + can_freeze, K_SCHED);
	if(c == n) {
		me->frozen = opt_freeze;
		rs_count(RS_NCOUNTERS - 2, 1);
		c = 1;
	}
	if(en[c] != cur)
		switch_to(en[c]);
}

void rs_point(const char *what)
{
	if(!rs_active())
		return;
	me->file = what;
	me->line = 0;
	sub_choice = 0;
	sched_point();
}

int rs_choose(int n, const char *what)
{
	if(!rs_active() || n < 2)
		return 0;
	(void)what;
	return next_choice(n, K_ENV);
}

static int op_eq(const struct oprec *a, const struct oprec *b)
{
	return a->file == b->file && a->line == b->line && a->addr == b->addr && a->val == b->val && a->size == b->size;
}

static void park(int n)
{
	struct rs_thread *t = me;
	if(n > RSN)
		n = RSN;
	memcpy(t->rs, t->log + t->nlog - n, (size_t)n * sizeof(struct oprec));
	t->nrs = n;
	t->nlog = 0;
	t->state = T_PARKED;
	yield_blocked();
}

static void log_op(const char *file, int line, const volatile void *addr, unsigned size, uint64_t val, int collapsible)
{
	struct rs_thread *t = me;
	if(t->no_park)
		return;
	struct oprec op = {file, line, addr, val, size, 0, collapsible};
	if(collapsible && t->nlog > 0 && op_eq(&t->log[t->nlog - 1], &op)) {
		if(++t->log[t->nlog - 1].rep > 300)
			park(1);
		return;
	}
	if(t->nlog == LOGN) {
		memmove(t->log, t->log + LOGN / 2, (LOGN / 2) * sizeof(struct oprec));
		t->nlog = LOGN / 2;
	}
	t->log[t->nlog++] = op;
	int nl = t->nlog;
	for(int n = 1; 2 * n <= nl; ++n) {
		if(!op_eq(&t->log[nl - 1], &t->log[nl - 1 - n]))
			continue;
		int ok = 1;
		for(int k = 1; k < n && ok; ++k)
			ok = op_eq(&t->log[nl - 1 - k], &t->log[nl - 1 - k - n]);
		if(ok) {
			park(n);
			return;
		}
	}
}

void rs_env_load(const volatile void *addr, unsigned size, const char *what)
{
	if(!rs_active())
		return;
	log_op(what, -1, addr, size, peek(addr, size), 0);
}

void rs_clock_read(void)
{
	if(!rs_active())
		return;
	log_op("clock", -2, (const volatile void *)&clock_epoch, 8, clock_epoch, 0);
}

uint64_t rs_clock_now(void)
{
	return ++vclock;
}

void rs_clock_jump(uint64_t us)
{
	clock_jump = us;
}

/* ------------------------------------------------------------------ hooks called from vy.h */
struct filecache {
	const char *file;
	int fine;
};
static struct filecache fcache[64];
static int nfcache;

static int is_fine(const char *file)
{
	for(int i = 0; i < nfcache; ++i)
		if(fcache[i].file == file)
			return fcache[i].fine;
	int f = H->fine_file ? H->fine_file(file) : 0;
	if(nfcache < 64) {
		fcache[nfcache].file = file;
		fcache[nfcache].fine = f;
		nfcache++;
	}
	return f;
}

int vy_pre(int kind, const volatile void *addr, unsigned size, const char *file, int line)
{
	if(!g_active || !me)
		return 0;
	me->file = file;
	me->line = line;
	sub_choice = 0;
	if(is_fine(file)) {
		/* A run of identical no-effect operations (e.g. the 64 exchanges of an empty inbox per loop iteration) is one
		 * scheduling point: nobody ran since the previous one, so preempting before the k-th instead of the first
		 * reaches the same state. */
		const struct oprec *l = me->nlog ? &me->log[me->nlog - 1] : NULL;
		if(!(l && l->nochange && l->file == file && l->line == line && l->addr == addr))
			sched_point();
	}
	if(kind == VY_PAUSE)
		return 0;
	me->pre_val = peek(addr, size);
	if(kind == VY_CASW && opt_spurious && is_fine(file))
		return next_choice(2, K_ENV) == 1;
	return 0;
}

void vy_post(int kind, const volatile void *addr, unsigned size)
{
	if(!g_active || !me)
		return;
	uint64_t v = peek(addr, size);
	if(H->on_op)
		H->on_op(kind, addr, size, me->file, me->line, me->pre_val, v);
	if(kind == VY_LOAD)
		log_op(me->file, me->line, addr, size, v, 0);
	else if(v != me->pre_val) {
		do_effect();
		/* --post-points: another thread may also run right AFTER an atomic that changed something, i.e. before the plain code
		 * that follows it (what "publish the pointer, then finish the object" needs in order to show) */
		if(opt_postpoints && is_fine(me->file)) {
			sub_choice = 1;
			sched_point();
		}
	} else
		log_op(me->file, me->line, addr, size, v, 1);
}

static __thread uint64_t tsc_local;
unsigned long long verif_rdtsc(void)
{
	tsc_local += 1000;
	return tsc_local;
}

/* ------------------------------------------------------------------ threads */
static void *tramp(void *a)
{
	struct rs_thread *t = a;
	me = t;
	fut_wait(&t->fut);
	t->fn(t->arg);
	t->state = T_DONE;
	for(int i = 0; i < nth; ++i)
		if(TH[i].state == T_JOIN && TH[i].join_target == t->id)
			TH[i].state = T_RUNNABLE;
	do_effect();
	yield_blocked();
	return NULL;
}

extern void tp_mark_threads_started(void) __attribute__((weak));
int rs_thread_create(void *(*fn)(void *), void *arg)
{
	if(tp_mark_threads_started)
		tp_mark_threads_started();
	if(!rs_active())
		rs_engine_error("rs_thread_create outside an execution");
	if(nth >= RS_MAXT)
		rs_engine_error("too many threads");
	struct rs_thread *t = &TH[nth];
	memset(t, 0, sizeof *t);
	t->id = nth;
	t->fn = fn;
	t->arg = arg;
	t->state = T_RUNNABLE;
	t->rank = me->rank;
	t->role = "thr";
	nth++;
	pthread_attr_t at;
	pthread_attr_init(&at);
	pthread_attr_setstacksize(&at, 4u << 20);
	if(pthread_create(&t->pt, &at, tramp, t))
		rs_engine_error("pthread_create failed");
	pthread_attr_destroy(&at);
	do_effect();
	return t->id;
}

void rs_thread_join(int id)
{
	if(!rs_active())
		return;
	if(TH[id].state == T_DONE)
		return;
	me->state = T_JOIN;
	me->join_target = id;
	me->file = "join";
	me->line = id;
	yield_blocked();
}

/* ------------------------------------------------------------------ running one execution */
static struct result *res_buf; /* shared mapping, one per worker */
static int errfd = -1;

static void child_run(const struct pair *pairs, uint32_t npairs, uint32_t plen)
{
	R = res_buf;
	R->status = RS_ENGINE_ERROR;
	R->written = 0;
	R->npoints = 0;
	R->logtxt_len = 0;
	R->msg[0] = 0;
	memset((void *)R->counters, 0, sizeof R->counters);
	pfx = pairs;
	pfx_n = npairs;
	pfx_len = plen;
	pfx_pos = 0;
	if(errfd >= 0)
		dup2(errfd, 2);
	alarm((unsigned)opt_exec_timeout);
	memset(TH, 0, sizeof TH);
	nth = 1;
	cur = 0;
	me = &TH[0];
	me->id = 0;
	me->state = T_RUNNABLE;
	me->role = "main";
	g_active = 1;
	H->body();
	if(H->final_check)
		H->final_check();
	if(pfx_n && pfx[pfx_n - 1].idx >= R->npoints)
		rs_engine_error("replay divergence: execution ended after %u points, prefix wants point %u", R->npoints,
		    pfx[pfx_n - 1].idx);
	finish(RS_OK, NULL);
}

/* returns status; fills res_buf */
static int run_one(const struct pair *pairs, uint32_t npairs, uint32_t plen, char *errtxt, size_t errcap)
{
	if(errfd >= 0) {
		if(ftruncate(errfd, 0)) {}
		lseek(errfd, 0, SEEK_SET);
	}
	res_buf->written = 0;
	pid_t pid = fork();
	if(pid < 0) {
		perror("fork");
		exit(2);
	}
	if(pid == 0) {
		child_run(pairs, npairs, plen);
		_exit(0);
	}
	int st;
	while(waitpid(pid, &st, 0) < 0 && errno == EINTR) {}
	__atomic_fetch_add(&SH->executions, 1, __ATOMIC_RELAXED);
	int status;
	if(res_buf->written) {
		status = res_buf->status;
	} else if(WIFSIGNALED(st) && WTERMSIG(st) == SIGALRM) {
		status = RS_TIMEOUT;
		snprintf(res_buf->msg, sizeof res_buf->msg, "execution exceeded %ld s wall clock", opt_exec_timeout);
	} else {
		status = RS_CRASH;
		if(WIFSIGNALED(st))
			snprintf(res_buf->msg, sizeof res_buf->msg, "crash: signal %d", WTERMSIG(st));
		else
			snprintf(res_buf->msg, sizeof res_buf->msg, "crash: exit code %d without verdict", WEXITSTATUS(st));
	}
	res_buf->status = status;
	if(errtxt && errcap) {
		errtxt[0] = 0;
		if(errfd >= 0) {
			lseek(errfd, 0, SEEK_SET);
			ssize_t n = read(errfd, errtxt, errcap - 1);
			errtxt[n > 0 ? n : 0] = 0;
		}
	}
	if(status == RS_CRASH) {
		/* make the sanitizer's headline part of the signature */
		char tmp[4096];
		tmp[0] = 0;
		if(errfd >= 0) {
			lseek(errfd, 0, SEEK_SET);
			ssize_t n = read(errfd, tmp, sizeof tmp - 1);
			tmp[n > 0 ? n : 0] = 0;
		}
		char *e = strstr(tmp, "ERROR: AddressSanitizer");
		if(!e)
			e = strstr(tmp, "runtime error:");
		if(e) {
			char *nl = strchr(e, '\n');
			if(nl)
				*nl = 0;
			/* strip addresses for a stable signature */
			char sig[512];
			int l = 0;
			for(char *p = e; *p && l < 500; ++p) {
				if(p[0] == '0' && p[1] == 'x') {
					sig[l++] = 'X';
					p += 2;
					while((*p >= '0' && *p <= '9') || (*p >= 'a' && *p <= 'f'))
						++p;
					--p;
				} else
					sig[l++] = *p;
			}
			sig[l] = 0;
			size_t ml = strlen(res_buf->msg);
			snprintf(res_buf->msg + ml, sizeof(res_buf->msg) - ml, " %s", sig);
		}
	}
	return status;
}

/* ------------------------------------------------------------------ explorer */
struct item {
	uint32_t npairs, plen, pcost, dcost;
	struct pair pairs[];
};

struct sigrec {
	char msg[768];
	int status;
	uint64_t count;
	char replay[256];
};

struct wstats {
	uint64_t execs, pruned, steps, points, newpoints, effects, maxpoints, maxsteps;
	uint64_t status_cnt[8];
	uint64_t counters[RS_NCOUNTERS];
	uint64_t counters_nz[RS_NCOUNTERS];
	uint64_t out_used;
	uint64_t out_items;
	int nsig;
	int deadline_hit;
	int engine_errors;
	int slow_reruns;
	struct sigrec sigs[MAXSIG];
	char sample[4][512];
	int nsample;
};

static struct wstats *WS;       /* [MAXW] shared */
static unsigned char *OUT[MAXW]; /* per-worker output buffers, shared */
#define OUTCAP (1ull << 31)

static void *shmap(size_t sz)
{
	void *p = mmap(NULL, sz, PROT_READ | PROT_WRITE, MAP_SHARED | MAP_ANONYMOUS | MAP_NORESERVE, -1, 0);
	if(p == MAP_FAILED) {
		perror("mmap");
		exit(2);
	}
	return p;
}

static void write_replay(const char *path, const struct pair *pairs, uint32_t npairs, uint32_t plen, int status,
    const char *msg, const char *errtxt)
{
	FILE *f = fopen(path, "w");
	if(!f)
		return;
	fprintf(f, "RSCHED-REPLAY 1\nharness %s\nargs", H->name);
	for(int i = 1; i < g_argc; ++i)
		if(strchr(g_argv[i], '=') && g_argv[i][0] != '-')
			fprintf(f, " %s", g_argv[i]);
	fprintf(f, "\nflags stateful=%d spurious=%d budget=%ld freeze=%d postpoints=%d\n", opt_stateful, opt_spurious, opt_budget, opt_freeze, opt_postpoints);
	fprintf(f, "plen %u\npairs %u\n", plen, npairs);
	for(uint32_t i = 0; i < npairs; ++i)
		fprintf(f, "%u %u %u\n", pairs[i].idx, pairs[i].alt, pairs[i].nalt);
	fprintf(f, "status %d\nmsg %s\n", status, msg);
	fprintf(f, "---- log ----\n%.*s\n", (int)res_buf->logtxt_len, res_buf->logtxt);
	if(errtxt && *errtxt)
		fprintf(f, "---- stderr ----\n%s\n", errtxt);
	fclose(f);
}

static void sig_normalize(char *dst, size_t cap, int status, const char *msg)
{
	snprintf(dst, cap, "%d|%s", status, msg);
}

/* full choice vector of the execution now in res_buf, as pairs */
static uint32_t trace_pairs(struct pair *out, uint32_t cap)
{
	uint32_t n = 0;
	for(uint32_t i = 0; i < res_buf->npoints; ++i)
		if(res_buf->pts[i].chosen) {
			if(n >= cap)
				break;
			out[n].idx = i;
			out[n].alt = res_buf->pts[i].chosen;
			out[n].nalt = res_buf->pts[i].nalt;
			n++;
		}
	return n;
}

static void handle_violation(struct wstats *ws, int w, const struct item *it, int status)
{
	char sig[800];
	sig_normalize(sig, sizeof sig, status, res_buf->msg);
	for(int i = 0; i < ws->nsig; ++i)
		if(!strcmp(ws->sigs[i].msg, sig)) {
			ws->sigs[i].count++;
			return;
		}
	if(ws->nsig >= MAXSIG)
		return;
	/* new signature for this worker: confirm by replaying twice (longer limit for timeouts) */
	static struct pair full[MAXPAIRS];
	uint32_t np = trace_pairs(full, MAXPAIRS);
	uint32_t plen = res_buf->npoints;
	char msg0[768];
	uint64_t obs0 = res_buf->obs;
	strcpy(msg0, res_buf->msg);
	(void)it;
	char errtxt[8192];
	long save_to = opt_exec_timeout;
	if(status == RS_TIMEOUT)
		opt_exec_timeout *= 5;
	int ok = 1;
	for(int r = 0; r < 2; ++r) {
		int s2 = run_one(full, np, plen, errtxt, sizeof errtxt);
		if(s2 != status || strcmp(res_buf->msg, msg0) || (status != RS_CRASH && status != RS_TIMEOUT && res_buf->obs != obs0)) {
			ok = 0;
			break;
		}
	}
	opt_exec_timeout = save_to;
	struct sigrec *s = &ws->sigs[ws->nsig++];
	s->count = 1;
	if(!ok) {
		s->status = RS_ENGINE_ERROR;
		snprintf(s->msg, sizeof s->msg, "%d|non-reproducible verdict (first: %.300s / replay: %d %.300s)", RS_ENGINE_ERROR,
		    msg0, res_buf->status, res_buf->msg);
		ws->engine_errors++;
	} else {
		s->status = status;
		strcpy(s->msg, sig);
	}
	snprintf(s->replay, sizeof s->replay, "%s/%s_w%d_%d.replay", opt_replay_dir, opt_id, w, ws->nsig);
	write_replay(s->replay, full, np, plen, status, msg0, errtxt);
}

static void emit_item(struct wstats *ws, int w, const struct item *parent, uint32_t idx, uint16_t alt, uint16_t nalt,
    int kind)
{
	size_t sz = sizeof(struct item) + (parent->npairs + 1) * sizeof(struct pair);
	if(ws->out_used + sz > OUTCAP) {
		fprintf(stderr, "rsched: frontier buffer overflow\n");
		_exit(2);
	}
	struct item *n = (struct item *)(OUT[w] + ws->out_used);
	/* pairs of the parent that lie before idx are exactly the parent's forced pairs (all < parent->plen <= idx) */
	n->npairs = parent->npairs + 1;
	n->plen = idx + 1;
	n->pcost = parent->pcost + (kind == K_SCHED);
	n->dcost = parent->dcost + (kind == K_ENV);
	memcpy(n->pairs, parent->pairs, parent->npairs * sizeof(struct pair));
	n->pairs[parent->npairs].idx = idx;
	n->pairs[parent->npairs].alt = alt;
	n->pairs[parent->npairs].nalt = nalt;
	ws->out_used += (sz + 7) & ~7ull;
	ws->out_items++;
}

static void process_item(struct wstats *ws, int w, const struct item *it)
{
	int status = run_one(it->pairs, it->npairs, it->plen, NULL, 0);
	if(status == RS_TIMEOUT) {
		/* a wall-clock limit says nothing about a deterministic schedule on a loaded machine: run the same schedule again with
		 * five times the limit before believing it; whatever that run ends with is the verdict of this schedule */
		long save_to = opt_exec_timeout;
		opt_exec_timeout *= 5;
		status = run_one(it->pairs, it->npairs, it->plen, NULL, 0);
		opt_exec_timeout = save_to;
		ws->slow_reruns++;
	}
	ws->execs++;
	ws->status_cnt[status & 7]++;
	ws->steps += res_buf->steps;
	ws->effects += res_buf->effects;
	ws->points += res_buf->npoints;
	if(res_buf->npoints > ws->maxpoints)
		ws->maxpoints = res_buf->npoints;
	if(res_buf->steps > ws->maxsteps)
		ws->maxsteps = res_buf->steps;
	if(res_buf->npoints > it->plen)
		ws->newpoints += res_buf->npoints - it->plen;
	for(int k = 0; k < RS_NCOUNTERS; ++k) {
		ws->counters[k] += res_buf->counters[k];
		ws->counters_nz[k] += res_buf->counters[k] != 0;
	}
	if(status == RS_OK || status == RS_PRUNED) {
		if(status == RS_PRUNED)
			ws->pruned++;
		else
			set_insert(SH->obsset, SH->obsset_mask, res_buf->obs, &SH->n_obs);
	}
	if(ws->nsample < 4 && (ws->execs == 1 || ws->execs == 7 || ws->execs == 50 || ws->execs == 400)) {
		char *s = ws->sample[ws->nsample++];
		int l = snprintf(s, 512, "status=%d points=%u steps=%lu choices=[", status, res_buf->npoints,
		    (unsigned long)res_buf->steps);
		for(uint32_t i = 0; i < it->npairs && l < 480; ++i)
			l += snprintf(s + l, 512 - l, "%s%u:%u/%u", i ? " " : "", it->pairs[i].idx, it->pairs[i].alt,
			    it->pairs[i].nalt);
		snprintf(s + l, 512 - l, "] obs=%016lx", (unsigned long)res_buf->obs);
	}
	/* children: one more non-default choice at a point not forced by the prefix.
	 * The trace of a failed execution is still a valid prefix tree up to its end. */
	uint32_t np = res_buf->npoints;
	for(uint32_t i = it->plen; i < np; ++i) {
		const struct point *p = &res_buf->pts[i];
		if(p->nalt < 2)
			continue;
		if(opt_stateful) {
			for(uint16_t a = 1; a < p->nalt; ++a)
				if(set_insert(SH->visited, SH->visited_mask, rs_mix(p->digest, a), &SH->n_visited)) {
					if(it->npairs + 1 >= MAXPAIRS) {
						ws->engine_errors++;
						continue;
					}
					emit_item(ws, w, it, i, a, p->nalt, p->kind);
				}
		} else {
			if(p->kind == K_SCHED && it->pcost + 1 > (uint32_t)opt_p)
				continue;
			if(p->kind == K_ENV && it->dcost + 1 > (uint32_t)opt_d)
				continue;
			for(uint16_t a = 1; a < p->nalt; ++a)
				emit_item(ws, w, it, i, a, p->nalt, p->kind);
		}
	}
	if(status != RS_OK && status != RS_PRUNED)
		handle_violation(ws, w, it, status);
}

static void json_str(FILE *f, const char *s)
{
	fputc('"', f);
	for(; *s; ++s) {
		unsigned char c = (unsigned char)*s;
		if(c == '"' || c == '\\')
			fprintf(f, "\\%c", c);
		else if(c == '\n')
			fputs("\\n", f);
		else if(c < 32 || c > 126)
			fprintf(f, "\\u%04x", c);
		else
			fputc(c, f);
	}
	fputc('"', f);
}

static int explore(void)
{
	double t0 = now_s();
	SH = shmap(sizeof *SH);
	uint64_t vbits = opt_stateful ? 25 : 4;
	SH->visited_mask = (1ull << vbits) - 1;
	SH->visited = shmap(sizeof(uint64_t) << vbits);
	SH->digset_mask = (1ull << vbits) - 1;
	SH->digset = shmap(sizeof(uint64_t) << vbits);
	SH->obsset_mask = (1ull << 24) - 1;
	SH->obsset = shmap(sizeof(uint64_t) << 24);
	WS = shmap(sizeof(struct wstats) * MAXW);
	int W = opt_j < 1 ? 1 : (opt_j > MAXW ? MAXW : opt_j);
	for(int w = 0; w < W; ++w)
		OUT[w] = shmap(OUTCAP);
	static struct wstats total;
	/* level 0: the root item */
	size_t lvl_bytes = sizeof(struct item);
	unsigned char *lvl = malloc(lvl_bytes);
	memset(lvl, 0, lvl_bytes);
	uint64_t lvl_n = 1;
	int level = 0, complete_level = -1, deadline_hit = 0, capped = 0;
	uint64_t root_obs = 0;
	int root_checked = 0;
	while(lvl_n) {
		/* offsets */
		uint64_t *offs = malloc(sizeof(uint64_t) * lvl_n);
		uint64_t o = 0;
		for(uint64_t i = 0; i < lvl_n; ++i) {
			offs[i] = o;
			struct item *it = (struct item *)(lvl + o);
			o += (sizeof(struct item) + it->npairs * sizeof(struct pair) + 7) & ~7ull;
		}
		SH->cursor = 0;
		int nw = (lvl_n < (uint64_t)W) ? (int)lvl_n : W;
		pid_t pids[MAXW];
		for(int w = 0; w < nw; ++w) {
			WS[w].out_used = 0;
			WS[w].out_items = 0;
			pids[w] = fork();
			if(pids[w] < 0) {
				perror("fork");
				exit(2);
			}
			if(pids[w] == 0) {
				res_buf = shmap(sizeof(struct result));
				errfd = memfd_create("rsched-stderr", 0);
				struct wstats *ws = &WS[w];
				for(;;) {
					if(opt_deadline > 0 && now_s() - t0 > opt_deadline) {
						ws->deadline_hit = 1;
						break;
					}
					if(opt_max_exec && SH->executions >= (uint64_t)opt_max_exec) {
						ws->deadline_hit = 2;
						break;
					}
					uint64_t i = __atomic_fetch_add(&SH->cursor, 1, __ATOMIC_SEQ_CST);
					if(i >= lvl_n)
						break;
					process_item(ws, w, (struct item *)(lvl + offs[i]));
					if(level == 0 && !root_checked && !opt_stateful) {
						/* determinism self-check: the root execution twice */
						uint64_t o1 = res_buf->obs;
						uint32_t n1 = res_buf->npoints;
						int s1 = res_buf->status;
						struct item rootit = {0};
						int s2 = run_one(rootit.pairs, 0, 0, NULL, 0);
						if(s1 != s2 || o1 != res_buf->obs || n1 != res_buf->npoints)
							ws->engine_errors += 1000;
					}
				}
				_exit(0);
			}
		}
		int werr = 0;
		for(int w = 0; w < nw; ++w) {
			int st;
			while(waitpid(pids[w], &st, 0) < 0 && errno == EINTR) {}
			if(!WIFEXITED(st) || WEXITSTATUS(st))
				werr = 1;
		}
		if(werr) {
			fprintf(stderr, "rsched: a worker died\n");
			return 2;
		}
		(void)root_obs;
		root_checked = 1;
		free(offs);
		/* merge output */
		uint64_t nb = 0, nn = 0;
		int dl = 0;
		for(int w = 0; w < nw; ++w) {
			nb += WS[w].out_used;
			nn += WS[w].out_items;
			if(WS[w].deadline_hit)
				dl = WS[w].deadline_hit;
		}
		free(lvl);
		lvl = NULL;
		lvl_n = 0;
		if(dl) {
			deadline_hit = 1;
			capped = dl;
			break;
		}
		complete_level = level;
		if(!opt_stateful && level >= opt_p + opt_d)
			break;
		if(opt_maxlevel >= 0 && level >= opt_maxlevel) {
			if(nn)
				capped = 3;
			break;
		}
		if(nn) {
			lvl = malloc(nb);
			uint64_t off = 0;
			for(int w = 0; w < nw; ++w) {
				memcpy(lvl + off, OUT[w], WS[w].out_used);
				off += WS[w].out_used;
				/* give the pages back */
				madvise(OUT[w], WS[w].out_used, MADV_REMOVE);
			}
			lvl_n = nn;
		}
		level++;
		if(opt_verbose)
			fprintf(stderr, "[rsched] level %d: %lu items, executions so far %lu, %.1fs\n", level,
			    (unsigned long)lvl_n, (unsigned long)SH->executions, now_s() - t0);
	}
	/* aggregate */
	memset(&total, 0, sizeof total);
	for(int w = 0; w < MAXW; ++w) {
		struct wstats *ws = &WS[w];
		total.execs += ws->execs;
		total.pruned += ws->pruned;
		total.steps += ws->steps;
		total.effects += ws->effects;
		total.points += ws->points;
		total.newpoints += ws->newpoints;
		total.engine_errors += ws->engine_errors;
		total.slow_reruns += ws->slow_reruns;
		if(ws->maxpoints > total.maxpoints)
			total.maxpoints = ws->maxpoints;
		if(ws->maxsteps > total.maxsteps)
			total.maxsteps = ws->maxsteps;
		for(int k = 0; k < 8; ++k)
			total.status_cnt[k] += ws->status_cnt[k];
		for(int k = 0; k < RS_NCOUNTERS; ++k) {
			total.counters[k] += ws->counters[k];
			total.counters_nz[k] += ws->counters_nz[k];
		}
		for(int i = 0; i < ws->nsig; ++i) {
			int f = -1;
			for(int j = 0; j < total.nsig; ++j)
				if(!strcmp(total.sigs[j].msg, ws->sigs[i].msg))
					f = j;
			if(f >= 0)
				total.sigs[f].count += ws->sigs[i].count;
			else if(total.nsig < MAXSIG)
				total.sigs[total.nsig++] = ws->sigs[i];
		}
		for(int i = 0; i < ws->nsample && total.nsample < 4; ++i)
			strcpy(total.sample[total.nsample++], ws->sample[i]);
	}
	FILE *f = opt_out ? fopen(opt_out, "w") : stdout;
	if(!f) {
		perror(opt_out);
		return 2;
	}
	fprintf(f, "{\n \"harness\": ");
	json_str(f, H->name);
	fprintf(f, ",\n \"id\": ");
	json_str(f, opt_id);
	fprintf(f, ",\n \"args\": [");
	int first = 1;
	for(int i = 1; i < g_argc; ++i)
		if(strchr(g_argv[i], '=') && g_argv[i][0] != '-') {
			if(!first)
				fputc(',', f);
			json_str(f, g_argv[i]);
			first = 0;
		}
	fprintf(f, "],\n \"mode\": \"%s\",\n", opt_stateful ? "stateful" : "stateless-bounded");
	fprintf(f, " \"bound_p\": %d, \"bound_d\": %d, \"spurious_cas\": %d,\n", opt_p, opt_d, opt_spurious);
	fprintf(f, " \"level_completed\": %d, \"deadline_hit\": %s, \"cap\": %d,\n", complete_level,
	    deadline_hit ? "true" : "false", capped);
	fprintf(f, " \"exhaustive\": %s,\n", (!deadline_hit && !capped && !total.engine_errors) ? "true" : "false");
	fprintf(f, " \"executions\": %lu, \"pruned\": %lu, \"steps\": %lu, \"effects\": %lu,\n", (unsigned long)total.execs,
	    (unsigned long)total.pruned, (unsigned long)total.steps, (unsigned long)total.effects);
	fprintf(f, " \"choice_points\": %lu, \"new_choice_points\": %lu, \"max_points\": %lu, \"max_steps\": %lu,\n",
	    (unsigned long)total.points, (unsigned long)total.newpoints, (unsigned long)total.maxpoints,
	    (unsigned long)total.maxsteps);
	fprintf(f, " \"distinct_states\": %lu, \"distinct_transitions\": %lu, \"distinct_outcomes\": %lu,\n",
	    (unsigned long)SH->n_dig, (unsigned long)SH->n_visited, (unsigned long)SH->n_obs);
	fprintf(f, " \"status_counts\": {\"ok\": %lu, \"violation\": %lu, \"engine_error\": %lu, \"deadlock\": %lu, \"budget\": %lu, "
		   "\"crash\": %lu, \"timeout\": %lu, \"pruned\": %lu},\n",
	    (unsigned long)total.status_cnt[0], (unsigned long)total.status_cnt[1], (unsigned long)total.status_cnt[2],
	    (unsigned long)total.status_cnt[3], (unsigned long)total.status_cnt[4], (unsigned long)total.status_cnt[5],
	    (unsigned long)total.status_cnt[6], (unsigned long)total.status_cnt[7]);
	fprintf(f, " \"engine_errors\": %d,\n \"slow_executions_rerun\": %d,\n \"counters\": {", total.engine_errors, total.slow_reruns);
	first = 1;
	for(int k = 0; k < RS_NCOUNTERS; ++k)
		if(H->counter_names[k]) {
			fprintf(f, "%s\"%s\": [%lu, %lu]", first ? "" : ", ", H->counter_names[k],
			    (unsigned long)total.counters[k], (unsigned long)total.counters_nz[k]);
			first = 0;
		}
	fprintf(f, "},\n \"clock_jumps\": %lu,\n \"violations\": [", (unsigned long)total.counters[RS_NCOUNTERS - 1]);
	for(int i = 0; i < total.nsig; ++i) {
		fprintf(f, "%s\n  {\"status\": %d, \"count\": %lu, \"signature\": ", i ? "," : "", total.sigs[i].status,
		    (unsigned long)total.sigs[i].count);
		json_str(f, total.sigs[i].msg);
		fprintf(f, ", \"replay\": ");
		json_str(f, total.sigs[i].replay);
		fprintf(f, "}");
	}
	fprintf(f, "],\n \"samples\": [");
	for(int i = 0; i < total.nsample; ++i) {
		fprintf(f, "%s", i ? ", " : "");
		json_str(f, total.sample[i]);
	}
	fprintf(f, "],\n \"wall_s\": %.3f\n}\n", now_s() - t0);
	if(f != stdout)
		fclose(f);
	if(total.engine_errors)
		return 2;
	return total.nsig ? 1 : 0;
}

/* ------------------------------------------------------------------ replay of a recorded execution */
static int replay(const char *path)
{
	FILE *f = fopen(path, "r");
	if(!f) {
		perror(path);
		return 2;
	}
	static struct pair pairs[MAXPAIRS];
	uint32_t np = 0, plen = 0;
	char line[4096];
	int want = -1;
	char wantmsg[768] = "";
	while(fgets(line, sizeof line, f)) {
		if(!strncmp(line, "plen ", 5))
			plen = (uint32_t)atol(line + 5);
		else if(!strncmp(line, "pairs ", 6)) {
			np = (uint32_t)atol(line + 6);
			for(uint32_t i = 0; i < np && i < MAXPAIRS; ++i) {
				unsigned a, b, c;
				if(!fgets(line, sizeof line, f) || sscanf(line, "%u %u %u", &a, &b, &c) != 3) {
					fprintf(stderr, "bad replay file\n");
					return 2;
				}
				pairs[i].idx = a;
				pairs[i].alt = (uint16_t)b;
				pairs[i].nalt = (uint16_t)c;
			}
		} else if(!strncmp(line, "status ", 7))
			want = atoi(line + 7);
		else if(!strncmp(line, "msg ", 4)) {
			strncpy(wantmsg, line + 4, sizeof wantmsg - 1);
			wantmsg[strcspn(wantmsg, "\n")] = 0;
		} else if(!strncmp(line, "----", 4))
			break;
	}
	fclose(f);
	SH = shmap(sizeof *SH);
	SH->visited_mask = 15;
	SH->visited = shmap(16 * 8);
	SH->digset_mask = 15;
	SH->digset = shmap(16 * 8);
	SH->obsset_mask = 15;
	SH->obsset = shmap(16 * 8);
	res_buf = shmap(sizeof(struct result));
	int save = opt_stateful;
	opt_stateful = 0; /* no pruning while replaying */
	int st = run_one(pairs, np, plen, NULL, 0);
	opt_stateful = save;
	printf("replay: status=%d msg=%s\npoints=%u steps=%lu obs=%016lx\n---- log ----\n%.*s\n", st, res_buf->msg,
	    res_buf->npoints, (unsigned long)res_buf->steps, (unsigned long)res_buf->obs, (int)res_buf->logtxt_len,
	    res_buf->logtxt);
	if(want >= 0)
		printf("recorded: status=%d msg=%s -> %s\n", want, wantmsg,
		    (want == st && !strcmp(wantmsg, res_buf->msg)) ? "REPRODUCED" : "DIFFERENT");
	return st == RS_OK ? 0 : 1;
}

int rs_main(int argc, char **argv, const struct rs_harness *h)
{
	/* address-space layout must not differ between exploration and replay */
	if(!getenv("RSCHED_NOASLR")) {
		int pers = personality(0xffffffff);
		if(pers != -1 && !(pers & ADDR_NO_RANDOMIZE)) {
			personality(pers | ADDR_NO_RANDOMIZE);
			setenv("RSCHED_NOASLR", "1", 1);
			execv("/proc/self/exe", argv);
		}
	}
	H = h;
	g_argc = argc;
	g_argv = argv;
	for(int i = 1; i < argc; ++i) {
		const char *a = argv[i];
		if(!strcmp(a, "-p") && i + 1 < argc)
			opt_p = atoi(argv[++i]);
		else if(!strcmp(a, "-d") && i + 1 < argc)
			opt_d = atoi(argv[++i]);
		else if(!strcmp(a, "-j") && i + 1 < argc)
			opt_j = atoi(argv[++i]);
		else if(!strcmp(a, "--stateful"))
			opt_stateful = 1;
		else if(!strcmp(a, "--spurious-cas"))
			opt_spurious = 1;
		else if(!strcmp(a, "--post-points"))
			opt_postpoints = 1;
		else if(!strcmp(a, "--freeze") && i + 1 < argc)
			opt_freeze = atoi(argv[++i]);
		else if(!strcmp(a, "--verbose"))
			opt_verbose = 1;
		else if(!strcmp(a, "--budget") && i + 1 < argc)
			opt_budget = atol(argv[++i]);
		else if(!strcmp(a, "--exec-timeout") && i + 1 < argc)
			opt_exec_timeout = atol(argv[++i]);
		else if(!strcmp(a, "--deadline") && i + 1 < argc)
			opt_deadline = atof(argv[++i]);
		else if(!strcmp(a, "--max-level") && i + 1 < argc)
			opt_maxlevel = atoi(argv[++i]);
		else if(!strcmp(a, "--max-exec") && i + 1 < argc)
			opt_max_exec = atol(argv[++i]);
		else if(!strcmp(a, "--out") && i + 1 < argc)
			opt_out = argv[++i];
		else if(!strcmp(a, "--replay-dir") && i + 1 < argc)
			opt_replay_dir = argv[++i];
		else if(!strcmp(a, "--replay") && i + 1 < argc)
			opt_replay = argv[++i];
		else if(!strcmp(a, "--id") && i + 1 < argc)
			opt_id = argv[++i];
		else if(a[0] == '-') {
			fprintf(stderr, "rsched: unknown option %s\n", a);
			return 2;
		}
	}
	if(opt_stateful && !h->digest) {
		fprintf(stderr, "rsched: harness has no digest, --stateful refused\n");
		return 2;
	}
	if(h->configure)
		h->configure(argc, argv);
	signal(SIGPIPE, SIG_IGN);
	if(opt_replay)
		return replay(opt_replay);
	return explore();
}
