/* rsched - deterministic cooperative scheduler + exhaustive bounded explorer.
 * See DESIGN.md section 2.2. */
#ifndef RSCHED_H
#define RSCHED_H
#include <stdint.h>
#include <stddef.h>

#define RS_MAXT 24
#define RS_NCOUNTERS 48

enum rs_status {
	RS_OK = 0,
	RS_VIOLATION = 1,    /* an oracle of the harness failed */
	RS_ENGINE_ERROR = 2, /* nondeterminism / replay divergence / internal limits */
	RS_DEADLOCK = 3,     /* every live thread parked or blocked, confirmed */
	RS_BUDGET = 4,       /* step budget exhausted (livelock suspicion) */
	RS_CRASH = 5,        /* child died on a signal or sanitizer abort */
	RS_TIMEOUT = 6,      /* wall-clock limit of a single execution */
	RS_PRUNED = 7        /* stateful mode: reached an already expanded (state, choice) */
};

struct rs_harness {
	const char *name;
	/* parse key=value parameters; called in the explorer before any fork (may be NULL) */
	void (*configure)(int argc, char **argv);
	/* body of the execution; runs as scheduler thread 0 in the forked child */
	void (*body)(void);
	/* optional: complete-state digest for stateful search (NULL = stateless bounded search) */
	uint64_t (*digest)(void);
	/* optional: called in the child right before the verdict is written when body returned */
	void (*final_check)(void);
	/* optional: given a file name of the core, is every hooked atomic in it a scheduling point? */
	int (*fine_file)(const char *file);
	/* optional: observer of every hooked atomic operation (after it executed) */
	void (*on_op)(int kind, const volatile void *addr, unsigned size, const char *file, int line, uint64_t before,
	    uint64_t after);
	/* optional: called when every live thread is parked or blocked, before a deadlock is declared; returns non-zero if it
	 * changed something threads may be waiting for (e.g. released messages the environment was holding back) */
	int (*on_quiesce)(void);
	/* optional: harness context appended to deadlock / livelock verdicts (part of the signature) */
	void (*describe)(char *buf, size_t cap);
	/* names for the user counters, for the report */
	const char *counter_names[RS_NCOUNTERS];
};

/* entry point: parses the engine's own options and runs explore/replay */
int rs_main(int argc, char **argv, const struct rs_harness *h);

/* ---- API usable inside body() and the threads it creates ---- */
int rs_thread_create(void *(*fn)(void *), void *arg); /* returns scheduler thread id */
void rs_thread_join(int id);
int rs_self(void);
int rs_active(void);
void rs_point(const char *what);          /* explicit scheduling point */
int rs_choose(int n, const char *what);   /* environment choice, default 0, others cost 1 deviation */
void rs_effect(void);                     /* the calling thread did something another thread can observe */
void rs_env_load(const volatile void *addr, unsigned size, const char *what); /* poll of an environment word */
void rs_clock_read(void);                 /* calling thread looked at the virtual clock */
uint64_t rs_clock_now(void);              /* virtual microseconds */
void rs_clock_jump(uint64_t us);
void rs_fail(const char *fmt, ...) __attribute__((format(printf, 1, 2), noreturn));
void rs_engine_error(const char *fmt, ...) __attribute__((format(printf, 1, 2), noreturn));
void rs_count(int k, uint64_t n);
void rs_count_max(int k, uint64_t n);
void rs_obs(uint64_t x);                  /* mix into the observation hash */
void rs_logf(const char *fmt, ...) __attribute__((format(printf, 1, 2)));
void rs_set_role(const char *role);       /* label of the calling thread in deadlock signatures */
void rs_set_rank(int rank);
int rs_rank(void);
uint64_t rs_steps(void);
const char *rs_param(const char *key, const char *dflt); /* key=value parameters given on the command line */
long rs_param_int(const char *key, long dflt);
void rs_no_park(int on);                  /* disable spin detection for the calling thread (harness code) */
void rs_end_ok(void) __attribute__((noreturn)); /* end the execution now with verdict OK (quiescence cut-off) */

static inline uint64_t rs_mix(uint64_t h, uint64_t x)
{
	h ^= x + 0x9e3779b97f4a7c15ULL + (h << 6) + (h >> 2);
	h *= 0xff51afd7ed558ccdULL;
	h ^= h >> 33;
	return h;
}
#endif
