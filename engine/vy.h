/* vy.h - force-included (-include) into every ROOT-Sim/core translation unit of a
 * verification build.  Redefines the C11 atomic_*_explicit generic functions, __rdtsc()
 * and _mm_pause() so that every atomic operation of the core is (a) visible to the
 * deterministic scheduler (engine/rsched.c) and (b) a potential scheduling point.
 * Because the hook lives in the macro, atomics added or moved by a later edit of the
 * core are hooked automatically.
 *
 * Build note: this header pulls in system headers before arch/platform.h can define
 * _GNU_SOURCE, so verification builds pass -D_GNU_SOURCE -std=gnu11.
 */
#ifndef VY_H
#define VY_H
#ifndef __ASSEMBLER__

#include <stdatomic.h>
#include <stdint.h>
#if defined(__x86_64__) || defined(__i386__)
#include <immintrin.h>
#include <x86intrin.h>
#endif

enum vy_kind { VY_LOAD = 1, VY_STORE, VY_RMW, VY_XCHG, VY_CASW, VY_TAS, VY_CLEAR, VY_PAUSE, VY_ENV };

/* returns non-zero only for VY_CASW when the scheduler decides a spurious failure */
extern int vy_pre(int kind, const volatile void *addr, unsigned size, const char *file, int line);
extern void vy_post(int kind, const volatile void *addr, unsigned size);
extern unsigned long long verif_rdtsc(void);

#undef atomic_load_explicit
#define atomic_load_explicit(p, mo)                                                                                    \
	__extension__({                                                                                                \
		__auto_type _vy_p = (p);                                                                               \
		vy_pre(VY_LOAD, _vy_p, sizeof(*_vy_p), __FILE__, __LINE__);                                            \
		__auto_type _vy_r = __atomic_load_n(_vy_p, __ATOMIC_SEQ_CST);                                          \
		vy_post(VY_LOAD, _vy_p, sizeof(*_vy_p));                                                               \
		_vy_r;                                                                                                 \
	})

#undef atomic_store_explicit
#define atomic_store_explicit(p, v, mo)                                                                                \
	__extension__({                                                                                                \
		__auto_type _vy_p = (p);                                                                               \
		vy_pre(VY_STORE, _vy_p, sizeof(*_vy_p), __FILE__, __LINE__);                                           \
		__atomic_store_n(_vy_p, (v), __ATOMIC_SEQ_CST);                                                        \
		vy_post(VY_STORE, _vy_p, sizeof(*_vy_p));                                                              \
	})

#undef atomic_fetch_add_explicit
#define atomic_fetch_add_explicit(p, v, mo)                                                                            \
	__extension__({                                                                                                \
		__auto_type _vy_p = (p);                                                                               \
		vy_pre(VY_RMW, _vy_p, sizeof(*_vy_p), __FILE__, __LINE__);                                             \
		__auto_type _vy_r = __atomic_fetch_add(_vy_p, (v), __ATOMIC_SEQ_CST);                                  \
		vy_post(VY_RMW, _vy_p, sizeof(*_vy_p));                                                                \
		_vy_r;                                                                                                 \
	})

#undef atomic_fetch_sub_explicit
#define atomic_fetch_sub_explicit(p, v, mo)                                                                            \
	__extension__({                                                                                                \
		__auto_type _vy_p = (p);                                                                               \
		vy_pre(VY_RMW, _vy_p, sizeof(*_vy_p), __FILE__, __LINE__);                                             \
		__auto_type _vy_r = __atomic_fetch_sub(_vy_p, (v), __ATOMIC_SEQ_CST);                                  \
		vy_post(VY_RMW, _vy_p, sizeof(*_vy_p));                                                                \
		_vy_r;                                                                                                 \
	})

#undef atomic_exchange_explicit
#define atomic_exchange_explicit(p, v, mo)                                                                             \
	__extension__({                                                                                                \
		__auto_type _vy_p = (p);                                                                               \
		vy_pre(VY_XCHG, _vy_p, sizeof(*_vy_p), __FILE__, __LINE__);                                            \
		__auto_type _vy_r = __atomic_exchange_n(_vy_p, (v), __ATOMIC_SEQ_CST);                                 \
		vy_post(VY_XCHG, _vy_p, sizeof(*_vy_p));                                                               \
		_vy_r;                                                                                                 \
	})

#undef atomic_compare_exchange_weak_explicit
#define atomic_compare_exchange_weak_explicit(p, e, d, mo1, mo2)                                                       \
	__extension__({                                                                                                \
		__auto_type _vy_p = (p);                                                                               \
		__auto_type _vy_e = (e);                                                                               \
		_Bool _vy_r;                                                                                           \
		if(vy_pre(VY_CASW, _vy_p, sizeof(*_vy_p), __FILE__, __LINE__)) {                                       \
			*_vy_e = __atomic_load_n(_vy_p, __ATOMIC_SEQ_CST);                                             \
			_vy_r = 0;                                                                                     \
		} else {                                                                                               \
			_vy_r = __atomic_compare_exchange_n(_vy_p, _vy_e, (d), 0, __ATOMIC_SEQ_CST, __ATOMIC_SEQ_CST); \
		}                                                                                                      \
		vy_post(VY_CASW, _vy_p, sizeof(*_vy_p));                                                               \
		_vy_r;                                                                                                 \
	})

#undef atomic_compare_exchange_strong_explicit
#define atomic_compare_exchange_strong_explicit(p, e, d, mo1, mo2)                                                     \
	__extension__({                                                                                                \
		__auto_type _vy_p = (p);                                                                               \
		vy_pre(VY_RMW, _vy_p, sizeof(*_vy_p), __FILE__, __LINE__);                                             \
		_Bool _vy_r = __atomic_compare_exchange_n(_vy_p, (e), (d), 0, __ATOMIC_SEQ_CST, __ATOMIC_SEQ_CST);     \
		vy_post(VY_RMW, _vy_p, sizeof(*_vy_p));                                                                \
		_vy_r;                                                                                                 \
	})

#undef atomic_flag_test_and_set_explicit
#define atomic_flag_test_and_set_explicit(p, mo)                                                                       \
	__extension__({                                                                                                \
		__auto_type _vy_p = (p);                                                                               \
		vy_pre(VY_TAS, _vy_p, 1, __FILE__, __LINE__);                                                          \
		_Bool _vy_r = __atomic_test_and_set((void *)_vy_p, __ATOMIC_SEQ_CST);                                  \
		vy_post(VY_TAS, _vy_p, 1);                                                                             \
		_vy_r;                                                                                                 \
	})

#undef atomic_flag_clear_explicit
#define atomic_flag_clear_explicit(p, mo)                                                                              \
	__extension__({                                                                                                \
		__auto_type _vy_p = (p);                                                                               \
		vy_pre(VY_CLEAR, _vy_p, 1, __FILE__, __LINE__);                                                        \
		__atomic_clear((void *)_vy_p, __ATOMIC_SEQ_CST);                                                       \
		vy_post(VY_CLEAR, _vy_p, 1);                                                                           \
	})

/* the non-_explicit spellings, should a later edit use them */
#undef atomic_load
#define atomic_load(p) atomic_load_explicit(p, memory_order_seq_cst)
#undef atomic_store
#define atomic_store(p, v) atomic_store_explicit(p, v, memory_order_seq_cst)
#undef atomic_fetch_add
#define atomic_fetch_add(p, v) atomic_fetch_add_explicit(p, v, memory_order_seq_cst)
#undef atomic_fetch_sub
#define atomic_fetch_sub(p, v) atomic_fetch_sub_explicit(p, v, memory_order_seq_cst)
#undef atomic_exchange
#define atomic_exchange(p, v) atomic_exchange_explicit(p, v, memory_order_seq_cst)
#undef atomic_compare_exchange_weak
#define atomic_compare_exchange_weak(p, e, d)                                                                          \
	atomic_compare_exchange_weak_explicit(p, e, d, memory_order_seq_cst, memory_order_seq_cst)
#undef atomic_compare_exchange_strong
#define atomic_compare_exchange_strong(p, e, d)                                                                        \
	atomic_compare_exchange_strong_explicit(p, e, d, memory_order_seq_cst, memory_order_seq_cst)
#undef atomic_flag_test_and_set
#define atomic_flag_test_and_set(p) atomic_flag_test_and_set_explicit(p, memory_order_seq_cst)
#undef atomic_flag_clear
#define atomic_flag_clear(p) atomic_flag_clear_explicit(p, memory_order_seq_cst)

#if defined(__x86_64__) || defined(__i386__)
#define __rdtsc() verif_rdtsc()
#define _mm_pause() ((void)vy_pre(VY_PAUSE, 0, 0, __FILE__, __LINE__))
#endif

#endif /* __ASSEMBLER__ */
#endif
