/* tsanpts - scheduling points at plain accesses to shared static storage.
 *
 * In "race" builds the core is compiled with -fsanitize=thread in addition to the hook header, but the sanitizer run time is
 * NOT linked: this file defines the __tsan_* entry points.  The atomic entry points forward to the real atomics (the hook
 * header has already made them scheduling points).  The plain read/write call-backs turn an access into a scheduling point
 * when it touches static storage (data/bss of the program: file-scope and function-level statics of the core, all rank
 * copies) that some thread has written - by a plain store - after the worker threads were started: state that more than
 * one thread may use without an atomic.  Thread-local storage, the stack and the heap are not concerned.  With the unchanged
 * core this adds a handful of points (per-thread slots of shared arrays); a scratch buffer or a cache hoisted to file scope,
 * or thread-local state made global, becomes a place where the explorer interleaves the threads.
 * This file is compiled WITHOUT -fsanitize=thread. */
#include "rsched.h"
#include <stdint.h>
#include <string.h>

extern char __data_start, _end;

#define WBITS 15
static uintptr_t Wset[1u << WBITS];
static unsigned Wn;
static int tp_threads_started;
static unsigned long tp_points;

void tp_mark_threads_started(void)
{
	tp_threads_started = 1;
}
unsigned long tp_point_count(void)
{
	return tp_points;
}
unsigned tp_shared_cells(void)
{
	return Wn;
}

static int w_has(uintptr_t cell, int add)
{
	unsigned h = (unsigned)((cell * 0x9e3779b97f4a7c15ULL) >> (64 - WBITS));
	for(unsigned i = 0; i < (1u << WBITS); ++i) {
		unsigned k = (h + i) & ((1u << WBITS) - 1);
		if(Wset[k] == cell)
			return 1;
		if(!Wset[k]) {
			if(add && Wn < (1u << (WBITS - 1))) {
				Wset[k] = cell;
				Wn++;
				return 1;
			}
			return 0;
		}
	}
	return 0;
}

static __thread int tp_busy;
static void tp_access(const void *p, int is_write)
{
	if((const char *)p < &__data_start || (const char *)p >= &_end)
		return;
	if(tp_busy || !rs_active())
		return;
	uintptr_t cell = (uintptr_t)p >> 3;
	if(!(is_write && tp_threads_started ? w_has(cell, 1) : w_has(cell, 0)))
		return;
	tp_busy = 1;
	tp_points++;
	rs_point(is_write ? "plain store to shared static storage" : "plain load from shared static storage");
	tp_busy = 0;
}

#define RD(n) void __tsan_read##n(void *p) { tp_access(p, 0); }
#define WR(n) void __tsan_write##n(void *p) { tp_access(p, 1); }
RD(1) RD(2) RD(4) RD(8) RD(16) WR(1) WR(2) WR(4) WR(8) WR(16)
void __tsan_unaligned_read2(void *p) { tp_access(p, 0); }
void __tsan_unaligned_read4(void *p) { tp_access(p, 0); }
void __tsan_unaligned_read8(void *p) { tp_access(p, 0); }
void __tsan_unaligned_read16(void *p) { tp_access(p, 0); }
void __tsan_unaligned_write2(void *p) { tp_access(p, 1); }
void __tsan_unaligned_write4(void *p) { tp_access(p, 1); }
void __tsan_unaligned_write8(void *p) { tp_access(p, 1); }
void __tsan_unaligned_write16(void *p) { tp_access(p, 1); }
void __tsan_read_range(void *p, long n) { (void)n; tp_access(p, 0); }
void __tsan_write_range(void *p, long n) { (void)n; tp_access(p, 1); }
void __tsan_func_entry(void *pc) { (void)pc; }
void __tsan_func_exit(void) {}
void __tsan_init(void) {}
void __tsan_vptr_update(void **a, void *b) { (void)a, (void)b; }
void __tsan_vptr_read(void **a) { (void)a; }

/* ---- atomics: forwarded ---- */
#define ATOMICS(N, T)                                                                                                              \
	T __tsan_atomic##N##_load(const volatile T *a, int mo) { (void)mo; return __atomic_load_n(a, __ATOMIC_SEQ_CST); }            \
	void __tsan_atomic##N##_store(volatile T *a, T v, int mo) { (void)mo; __atomic_store_n(a, v, __ATOMIC_SEQ_CST); }            \
	T __tsan_atomic##N##_exchange(volatile T *a, T v, int mo) { (void)mo; return __atomic_exchange_n(a, v, __ATOMIC_SEQ_CST); }  \
	T __tsan_atomic##N##_fetch_add(volatile T *a, T v, int mo) { (void)mo; return __atomic_fetch_add(a, v, __ATOMIC_SEQ_CST); }  \
	T __tsan_atomic##N##_fetch_sub(volatile T *a, T v, int mo) { (void)mo; return __atomic_fetch_sub(a, v, __ATOMIC_SEQ_CST); }  \
	T __tsan_atomic##N##_fetch_and(volatile T *a, T v, int mo) { (void)mo; return __atomic_fetch_and(a, v, __ATOMIC_SEQ_CST); }  \
	T __tsan_atomic##N##_fetch_or(volatile T *a, T v, int mo) { (void)mo; return __atomic_fetch_or(a, v, __ATOMIC_SEQ_CST); }    \
	T __tsan_atomic##N##_fetch_xor(volatile T *a, T v, int mo) { (void)mo; return __atomic_fetch_xor(a, v, __ATOMIC_SEQ_CST); }  \
	T __tsan_atomic##N##_fetch_nand(volatile T *a, T v, int mo) { (void)mo; return __atomic_fetch_nand(a, v, __ATOMIC_SEQ_CST); } \
	int __tsan_atomic##N##_compare_exchange_strong(volatile T *a, T *c, T v, int mo, int fmo)                                     \
	{                                                                                                                              \
		(void)mo, (void)fmo;                                                                                                   \
		return __atomic_compare_exchange_n(a, c, v, 0, __ATOMIC_SEQ_CST, __ATOMIC_SEQ_CST);                                    \
	}                                                                                                                              \
	int __tsan_atomic##N##_compare_exchange_weak(volatile T *a, T *c, T v, int mo, int fmo)                                       \
	{                                                                                                                              \
		(void)mo, (void)fmo;                                                                                                   \
		return __atomic_compare_exchange_n(a, c, v, 0, __ATOMIC_SEQ_CST, __ATOMIC_SEQ_CST);                                    \
	}                                                                                                                              \
	T __tsan_atomic##N##_compare_exchange_val(volatile T *a, T c, T v, int mo, int fmo)                                           \
	{                                                                                                                              \
		(void)mo, (void)fmo;                                                                                                   \
		__atomic_compare_exchange_n(a, &c, v, 0, __ATOMIC_SEQ_CST, __ATOMIC_SEQ_CST);                                          \
		return c;                                                                                                              \
	}
ATOMICS(8, uint8_t)
ATOMICS(16, uint16_t)
ATOMICS(32, uint32_t)
ATOMICS(64, uint64_t)
void __tsan_atomic_thread_fence(int mo) { (void)mo; __atomic_thread_fence(__ATOMIC_SEQ_CST); }
void __tsan_atomic_signal_fence(int mo) { (void)mo; __atomic_signal_fence(__ATOMIC_SEQ_CST); }
