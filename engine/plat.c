/* plat.c - replacement of the platform layer of the core for verification builds:
 * arch/thread.c (thread_start/thread_wait/...) on top of rsched, and the virtual clock
 * behind gettimeofday(). */
#define _GNU_SOURCE
#include "rsched.h"
#include <pthread.h>
#include <sys/time.h>
#include <stdint.h>
#include <stdlib.h>

typedef void *(*thr_run_fnc)(void *);

struct tstart {
	thr_run_fnc f;
	void *arg;
};

int thread_start(pthread_t *thr_p, thr_run_fnc t_fnc, void *t_fnc_arg)
{
	int id = rs_thread_create(t_fnc, t_fnc_arg);
	*thr_p = (pthread_t)(uintptr_t)id;
	return 0;
}

int thread_affinity_set(pthread_t thr, unsigned core)
{
	(void)thr;
	(void)core;
	return 0;
}

int thread_wait(pthread_t thr, void **ret)
{
	if(ret)
		*ret = NULL;
	rs_thread_join((int)(uintptr_t)thr);
	return 0;
}

unsigned thread_cores_count(void)
{
	return 64;
}

/* virtual clock: strictly increasing per read, large jumps only by scheduler decision */
int gettimeofday(struct timeval *restrict tv, void *restrict tz)
{
	(void)tz;
	rs_clock_read();
	uint64_t t = rs_clock_now();
	tv->tv_sec = (time_t)(t / 1000000u);
	tv->tv_usec = (suseconds_t)(t % 1000000u);
	return 0;
}
