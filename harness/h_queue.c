/* h_queue - C15: the real datatypes/msg_queue.c (lock-free per-thread buffer + private heap)
 * under rsched.  Thread 0 is the consumer (owner of queue 0) and runs an operation string
 * over {E=extract, P=peek}; P producer threads insert M messages each for LP 0.
 * Oracle (linearizability-style, from call/return stamps):
 *  - every inserted message is extracted exactly once (final drain included);
 *  - an extraction that began after insert(m) returned, with m not yet extracted, returns a
 *    message with timestamp <= t(m); NULL only if no such m exists; same for the peek value. */
#include "../engine/rsched.h"
#include <ROOT-Sim.h>
#include <core/core.h>
#include <datatypes/msg_queue.h>
#include <lp/lp.h>
#include <lp/msg.h>
#include <log/log.h>
#include <string.h>
#include <stdlib.h>

struct simulation_configuration global_config;
__thread rid_t rid;
nid_t n_nodes = 1, nid;
uint64_t lid_node_first;
lp_id_t n_lps_node;
struct lp_ctx *lps;

void vlogger(enum log_level level, char *file, unsigned line, const char *fmt, ...)
{
	(void)level, (void)file, (void)line, (void)fmt;
}

static int freed_at_fini;
void msg_allocator_free(struct lp_msg *msg)
{
	(void)msg;
	freed_at_fini++;
}

#define MAXM 12
static int P = 2, M = 2, NM;
static const char *ops = "EPEPE";
static const char *times = "1212";
static int anti = -1;
static struct lp_msg *msgs[MAXM];
static uint64_t clk;
static uint64_t ins_begin[MAXM], ins_end[MAXM], ext_at[MAXM];
static int nextr[MAXM];
static uint64_t hist = 99;           /* hash of the consumer's results so far */
static uint64_t xfer = 77;           /* hash of the order in which messages reached the private heap */
static int cons_op;                  /* index of the consumer's current op */
static int prod_idx[RS_MAXT];
static const volatile void *listhead;

enum { C_CAS_RETRY, C_EXTRACT_NULL, C_EXTRACT_MSG, C_PEEK_MAX, C_PEEK_VAL, C_OVERLAP };

static int msg_index(const struct lp_msg *m)
{
	for(int i = 0; i < NM; ++i)
		if(msgs[i] == m)
			return i;
	return -1;
}

static void on_op(int kind, const volatile void *addr, unsigned size, const char *file, int line, uint64_t before,
    uint64_t after)
{
	(void)line, (void)after;
	if(!strstr(file, "datatypes/msg_queue.c") || size != 8)
		return;
	if(kind == 4 /* VY_XCHG */ && rs_self() == 0) {
		listhead = addr;
		/* the consumer took the whole list: these messages are now transferred, in list order */
		const struct lp_msg *m = (const struct lp_msg *)(uintptr_t)before;
		int guard = 0;
		while(m && guard++ < 64) {
			int i = msg_index(m);
			if(i < 0)
				rs_fail("consumer swapped out a list containing a foreign pointer");
			xfer = rs_mix(xfer, (uint64_t)i + 1);
			m = m->next;
		}
		if(guard >= 64)
			rs_fail("cycle in the inter-thread list");
	}
	if(kind == 5 /* VY_CASW */ && before == after && rs_self() != 0)
		rs_count(C_CAS_RETRY, 1);
}

/* oracle for an extract/peek that began at stamp b and observed time t (got==0: nothing) */
static void check_lower_bound(const char *what, uint64_t b, int got, double t, int self_idx)
{
	for(int j = 0; j < NM; ++j) {
		if(!ins_end[j] || ins_end[j] >= b)
			continue; /* insert had not returned when the operation began */
		if(ext_at[j] && ext_at[j] < b)
			continue; /* already extracted before */
		if(j == self_idx)
			continue;
		if(!got)
			rs_fail("%s op %d returned nothing although message %d (t=%g) was inserted before it began", what,
			    cons_op, j, msgs[j]->dest_t);
		if(t > msgs[j]->dest_t)
			rs_fail("%s op %d returned t=%g although message %d with t=%g was inserted before it began and not "
				"yet extracted",
			    what, cons_op, t, j, msgs[j]->dest_t);
	}
}

static void do_extract(void)
{
	uint64_t b = ++clk;
	struct lp_msg *m = msg_queue_extract();
	++clk;
	if(!m) {
		rs_count(C_EXTRACT_NULL, 1);
		check_lower_bound("extract", b, 0, 0, -1);
		hist = rs_mix(hist, 1000);
		return;
	}
	int i = msg_index(m);
	if(i < 0)
		rs_fail("extract returned a pointer that was never inserted");
	if(!ins_begin[i])
		rs_fail("extract returned message %d before its insertion began", i);
	if(++nextr[i] > 1)
		rs_fail("message %d extracted twice", i);
	rs_count(C_EXTRACT_MSG, 1);
	if(!ins_end[i])
		rs_count(C_OVERLAP, 1);
	check_lower_bound("extract", b, 1, m->dest_t, i);
	ext_at[i] = clk;
	hist = rs_mix(hist, (uint64_t)i + 1);
}

static void do_peek(void)
{
	uint64_t b = ++clk;
	simtime_t t = msg_queue_time_peek();
	++clk;
	if(t == SIMTIME_MAX) {
		rs_count(C_PEEK_MAX, 1);
		check_lower_bound("peek", b, 0, 0, -1);
		hist = rs_mix(hist, 2000);
	} else {
		rs_count(C_PEEK_VAL, 1);
		check_lower_bound("peek", b, 1, t, -1);
		/* the value must be the timestamp of some message that is in the system */
		int ok = 0;
		for(int j = 0; j < NM; ++j)
			ok |= ins_begin[j] && !(ext_at[j] && ext_at[j] < b) && msgs[j]->dest_t == t;
		if(!ok)
			rs_fail("peek op %d returned t=%g which no pending message carries", cons_op, t);
		hist = rs_mix(hist, 3000 + (uint64_t)t);
	}
}

static void *producer(void *arg)
{
	int p = (int)(long)arg;
	rid = (rid_t)p;
	rs_set_role("producer");
	for(int k = 0; k < M; ++k) {
		int i = (p - 1) * M + k;
		prod_idx[p] = k;
		rs_point("producer-op");
		ins_begin[i] = ++clk;
		msg_queue_insert(msgs[i]);
		ins_end[i] = ++clk;
	}
	prod_idx[p] = M;
	return NULL;
}

static void body(void)
{
	NM = P * M;
	global_config.n_threads = (unsigned)(P + 1);
	global_config.lps = (lp_id_t)(P + 1);
	n_lps_node = (lp_id_t)(P + 1);
	for(int i = 0; i < NM; ++i) {
		msgs[i] = calloc(1, sizeof(struct lp_msg));
		msgs[i]->dest = 0;
		msgs[i]->dest_t = (double)(times[i % strlen(times)] - '0');
		msgs[i]->m_type = (unsigned)i; /* distinct content: ties are resolved, never "equal" */
		msgs[i]->raw_flags = (i == anti) ? MSG_FLAG_ANTI : 0;
	}
	rid = 0;
	rs_set_role("consumer");
	msg_queue_global_init();
	msg_queue_init();
	int ids[RS_MAXT];
	for(int p = 1; p <= P; ++p)
		ids[p] = rs_thread_create(producer, (void *)(long)p);
	for(cons_op = 0; ops[cons_op]; ++cons_op) {
		rs_point("consumer-op");
		if(ops[cons_op] == 'E')
			do_extract();
		else
			do_peek();
	}
	for(int p = 1; p <= P; ++p)
		rs_thread_join(ids[p]);
	/* final drain: everything inserted must come out, in non-decreasing timestamp order from here on */
	double last = -1;
	for(int k = 0; k <= NM; ++k) {
		rs_point("consumer-drain");
		uint64_t b = ++clk;
		struct lp_msg *m = msg_queue_extract();
		++clk;
		if(!m)
			break;
		int i = msg_index(m);
		if(i < 0)
			rs_fail("drain: foreign pointer");
		if(++nextr[i] > 1)
			rs_fail("message %d extracted twice (drain)", i);
		if(m->dest_t < last)
			rs_fail("drain: timestamps decrease (%g after %g)", m->dest_t, last);
		check_lower_bound("drain-extract", b, 1, m->dest_t, i);
		ext_at[i] = clk;
		last = m->dest_t;
		hist = rs_mix(hist, (uint64_t)i + 1);
	}
	for(int i = 0; i < NM; ++i)
		if(nextr[i] != 1)
			rs_fail("message %d (t=%g) was inserted but extracted %d times", i, msgs[i]->dest_t, nextr[i]);
	msg_queue_fini();
	if(freed_at_fini)
		rs_fail("%d messages were still in the queue at fini after a complete drain", freed_at_fini);
	rs_obs(hist);
}

static uint64_t digest(void)
{
	uint64_t h = rs_mix(hist, xfer);
	h = rs_mix(h, (uint64_t)cons_op);
	if(listhead) {
		const struct lp_msg *m = *(struct lp_msg *const volatile *)listhead;
		int guard = 0;
		while(m && guard++ < 32) {
			h = rs_mix(h, (uint64_t)msg_index(m) + 1);
			m = m->next;
		}
	}
	for(int i = 0; i < NM; ++i) {
		h = rs_mix(h, (uint64_t)(ins_begin[i] != 0) | (uint64_t)(ins_end[i] != 0) << 1 | (uint64_t)nextr[i] << 2);
		h = rs_mix(h, (uint64_t)msg_index(msgs[i]->next) + 1);
		/* relative order of completed inserts vs. the consumer's current op matters to the oracle */
		h = rs_mix(h, ins_end[i] && !ext_at[i] ? 1 : 0);
	}
	for(int p = 1; p <= P; ++p)
		h = rs_mix(h, (uint64_t)prod_idx[p]);
	return h;
}

static int fine(const char *file)
{
	return strstr(file, "datatypes/msg_queue.c") != NULL;
}

static void configure(int argc, char **argv)
{
	(void)argc, (void)argv;
	P = (int)rs_param_int("P", 2);
	M = (int)rs_param_int("M", 2);
	ops = rs_param("ops", "EPEPE");
	times = rs_param("times", "1212");
	anti = (int)rs_param_int("anti", -1);
	if(P * M > MAXM || P + 1 > RS_MAXT) {
		fprintf(stderr, "h_queue: too many messages/threads\n");
		exit(2);
	}
}

static const struct rs_harness H = {
    .name = "h_queue",
    .configure = configure,
    .body = body,
    .digest = digest,
    .fine_file = fine,
    .on_op = on_op,
    .counter_names = {[C_CAS_RETRY] = "cas_failed", [C_EXTRACT_NULL] = "extract_null", [C_EXTRACT_MSG] = "extract_msg",
	[C_PEEK_MAX] = "peek_empty", [C_PEEK_VAL] = "peek_value", [C_OVERLAP] = "extracted_before_insert_returned"},
};

int main(int argc, char **argv)
{
	return rs_main(argc, argv, &H);
}
