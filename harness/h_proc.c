/* h_proc - the Time Warp step function of the real runtime under every legal environment.
 *
 * One scheduler thread drives the real lp/process.c (process_msg, ScheduleNewEvent, rollback, anti-messages,
 * coast forward), datatypes/msg_queue.c, gvt/fossil.c, mm/buddy/ (checkpoints), mm/auto_ckpt.c and mm/msg_allocator.c
 * for one vmodel program.  Every LP is treated as living on its own worker: a message an LP sends to ANOTHER LP
 * (positive, or the re-insertion of an already processed message as anti-message) is caught at the call of
 * msg_queue_insert() in process.o and kept in a pool of in-flight messages; what an LP inserts for itself (the events it
 * rolled back, self-sends) reaches its queue at once, as in the runtime.  A step is one of
 *     P        process_msg() on what the queue holds
 *     D(m);P   hand the in-flight message m to the real msg_queue_insert(), then process_msg()
 *     G(g)     announce a GVT g that is legal for this state: g <= timestamp of every in-flight and every queued message
 *              (g = that minimum, and with glow=1 also minimum-1); the real fossil_on_gvt()/msg_allocator_on_gvt() run,
 *              the LPs collect lazily at their next extraction exactly as in parallel.c
 * and rsched's stateful search enumerates every sequence of steps up to state equality (digest below) - there is no bound
 * on the number of held messages, reorderings or GVT announcements other than the model's horizon.
 *
 * Oracles, evaluated after every step:
 *   order   the processed entries of every LP history are in msg_is_before order (a straggler was rolled back far enough)
 *   state   the LP state equals the digest recorded when the last event of its history was executed forward
 *           (rollback + coast forward restore the exact state, C03/C13)
 *   commit  what fossil collection releases from a history is below the announced GVT and is, event by event and state
 *           hash by state hash, the next part of the sequential execution of that LP (C03, C13)
 *   msgs    no message is freed twice / freed while queued, in flight or in a history (C11)
 *   acct    every process_msg() call reported to the GVT module a timestamp <= everything it put in flight (C04, the half of
 *           the GVT safety argument that lives in lp/process.c)
 * and at quiescence (nothing in flight, nothing queued): committed + remaining history of every LP is the sequential
 * execution and its state is the sequential end state (C01/C02/C03). */
#include "../engine/rsched.h"
#include "../model/vmodel.h"
#include "../model/refexec.h"
#include <ROOT-Sim.h>
#include <core/core.h>
#include <datatypes/msg_queue.h>
#include <gvt/fossil.h>
#include <gvt/termination.h>
#include <lp/lp.h>
#include <lp/msg.h>
#include <lp/process.h>
#include <mm/auto_ckpt.h>
#include <mm/msg_allocator.h>
#include <stdio.h>
#include <stdlib.h>
#include <string.h>

extern struct vm_env vm_core_env;

/* platform stubs (arch/thread.c is not compiled) */
int thread_start(void *a, void *b, void *c) { (void)a, (void)b, (void)c; return -1; }
int thread_affinity_set(unsigned long t, unsigned c) { (void)t, (void)c; return 0; }
int thread_wait(unsigned long t, void **r) { (void)t, (void)r; return 0; }
unsigned thread_cores_count(void) { return 64; }

/* the real functions behind the redirected calls */
extern void msg_queue_insert(struct lp_msg *msg);
extern struct lp_msg *msg_queue_extract(void);
extern void msg_allocator_free(struct lp_msg *msg);
extern struct lp_msg *msg_allocator_alloc(unsigned payload_size);

enum { C_STEPS, C_DELIVER, C_ROLLBACK, C_ANTI, C_GVT, C_FOSSIL_MSGS, C_COMMIT_CHECKED, C_QUIESCENT, C_ROLLBACK_AFTER_FOSSIL, C_TO_POS0,
	C_HELD_MAX, C_ANTI_UNPROCESSED, C_SILENT, C_ACCT_CHECKED, C_ANTI_CASCADE, C_REMOTE, C_REMOTE_ANTI, C_EARLY_ANTI };

static const char *P_model = "L2_I1,2_R2,1,7_P5_K100_M0_G0_H4_C2_S0";
static int P_ckpt = 1, P_glow = 0, P_maxg = 1000;
static int P_rm; /* rm=1 (binary built with -DHPROC_REMOTE): the LPs are spread over 2 nodes, see "remote messages" below */

static struct rx_result REF;

/* ---- message table ---- */
enum where { W_NONE, W_POOL, W_QUEUE };
#define MAXREC 512
struct rec {
	struct lp_msg *m;
	int where;
	int has_h;
	uint64_t h_after;
	unsigned seq;
	int remote_sent; /* the sender's copy of a message that went to another node */
};
static struct rec recs[MAXREC];
static int nrecs;
static unsigned seq_ctr;

static struct rec *rec_of(const struct lp_msg *m, int create)
{
	for(int i = 0; i < nrecs; ++i)
		if(recs[i].m == m)
			return &recs[i];
	if(!create)
		return NULL;
	if(nrecs >= MAXREC)
		rs_engine_error("message table full");
	struct rec *r = &recs[nrecs++];
	memset(r, 0, sizeof *r);
	r->m = (struct lp_msg *)m;
	r->seq = seq_ctr++;
	return r;
}
static void rec_drop(struct rec *r)
{
	*r = recs[--nrecs];
}

static uint64_t msg_key(const struct lp_msg *m)
{
	uint64_t h = rs_mix(m->dest, (uint64_t)(m->dest_t * 16.0));
	h = rs_mix(h, m->m_type);
	h = rs_mix(h, m->pl_size);
	h = rs_mix(h, vm_payload_hash(m->pl, m->pl_size));
	return rs_mix(h, atomic_load_explicit(&((struct lp_msg *)m)->flags, memory_order_relaxed));
}

static const char *msg_str(const struct lp_msg *m)
{
	static char b[4][96];
	static int k;
	char *s = b[k++ & 3];
	snprintf(s, 96, "(LP %lu t=%g type=%u size=%u flags=%u)", (unsigned long)m->dest, m->dest_t, m->m_type, m->pl_size,
	    (unsigned)atomic_load_explicit(&((struct lp_msg *)m)->flags, memory_order_relaxed));
	return s;
}

/* ---- observation of the handler ---- */
static uint64_t last_digest;
static int in_process; /* a process_msg() call is running */
static struct lp_msg *cur_msg;
static lp_id_t cur_dest; /* cur_msg may be released by process_msg(): what the log needs is copied at extraction */
static char cur_str[160];
static int cur_was_anti;
static unsigned ndisp;

static void h_dispatch(lp_id_t me, simtime_t now, unsigned type, const void *pl, unsigned size, void *st)
{
	vm_process_event(me, now, type, pl, size, st);
	if(type == LP_FINI)
		return;
	last_digest = vm_full_digest(lps[me].state_pointer);
	ndisp++;
}

/* ---- per-LP commit cursor ---- */
static unsigned committed_n[VM_MAXLP];
static double gvt_now; /* last announced GVT */
static unsigned gvt_count;
static int fossil_happened[VM_MAXLP];

static void commit_one(const struct lp_msg *m, uint64_t plh, int has_h, uint64_t h_after)
{
	lp_id_t l = m->dest;
	if(m->m_type == LP_INIT)
		return;
	if(m->dest_t >= gvt_now)
		rs_fail("fossil collection released a processed event that is not below the GVT: %s, GVT %g", msg_str(m), gvt_now);
	unsigned k = committed_n[l]++;
	if(k >= REF.per_lp_n[l])
		rs_fail("committed an event the sequential execution never delivers: LP %lu commit #%u %s", (unsigned long)l, k, msg_str(m));
	const struct rx_event *e = &REF.ev[REF.per_lp[l][k]];
	if(e->t != m->dest_t || e->type != m->m_type || e->size != m->pl_size || e->plh != plh)
		rs_fail("committed history is not a prefix of the sequential history: LP %lu commit #%u is %s, sequential delivery #%u is "
			"(t=%g type=%u size=%u)",
		    (unsigned long)l, k, msg_str(m), k, e->t, e->type, e->size);
	if(has_h && h_after != e->h_after)
		rs_fail("committed state differs from the sequential execution: LP %lu commit #%u %s", (unsigned long)l, k, msg_str(m));
	rs_count(C_COMMIT_CHECKED, 1);
}

/* ---- redirected calls ---- */
/* GVT accounting contract of lp/process.c: by the time process_msg() returns, the smallest timestamp it reported through
 * gvt_on_msg_extraction() is <= the timestamp of everything it sent to another worker during the call (the receiver may
 * already have sampled its queue for the running reduction, so only the sender's accumulator can cover such a message) */
static double call_reported, call_sent;
static char call_sent_str[128];
extern void gvt_on_msg_extraction(simtime_t msg_t);
void vw_gvt_on_msg_extraction(simtime_t t)
{
	if(t < call_reported)
		call_reported = t;
	gvt_on_msg_extraction(t);
}
/* fossil_lp_collect() releases the committed part of a history back to front: buffered, checked front to back */
static struct { struct lp_msg m; uint64_t plh; int has_h; uint64_t h_after; } cbuf[MAXREC];
static int ncbuf, in_collect;
static int n_queue; /* messages inside the real queue */

extern void fossil_lp_collect(struct lp_ctx *lp);
void vw_fossil_lp_collect(struct lp_ctx *lp)
{
	fossil_happened[lp - lps] = 1;
	rs_logf("    LP %lu collects at GVT %g (history %u entries)\n", (unsigned long)(lp - lps), gvt_now, (unsigned)array_count(lp->p.p_msgs));
	ncbuf = 0;
	in_collect = 1;
	fossil_lp_collect(lp);
	in_collect = 0;
	while(ncbuf--)
		commit_one(&cbuf[ncbuf].m, cbuf[ncbuf].plh, cbuf[ncbuf].has_h, cbuf[ncbuf].h_after);
	ncbuf = 0;
}

static void real_insert(struct lp_msg *m, struct rec *r)
{
	r->where = W_QUEUE;
	n_queue++;
	msg_queue_insert(m);
}

void vw_msg_queue_insert(struct lp_msg *m)
{
	struct rec *r = rec_of(m, 1);
	if(r->where == W_POOL || r->where == W_QUEUE)
		rs_fail("message inserted while it is already %s: %s", r->where == W_POOL ? "in flight" : "queued", msg_str(m));
	if(current_lp && m->dest == (lp_id_t)(current_lp - lps))
		real_insert(m, r); /* same worker: visible at the next extraction */
	else {
		r->where = W_POOL;
		r->seq = seq_ctr++;
		if(in_process && m->dest_t < call_sent) {
			call_sent = m->dest_t;
			snprintf(call_sent_str, sizeof call_sent_str, "%s", msg_str(m));
		}
		rs_logf("    in flight: %s pl=%016lx\n", msg_str(m), (unsigned long)vm_payload_hash(m->pl, m->pl_size));
	}
}

struct lp_msg *vw_msg_queue_extract(void)
{
	struct lp_msg *m = msg_queue_extract();
	cur_msg = m;
	if(m) {
		if(P_rm)
			nid = lid_to_nid(m->dest); /* the call runs on the node hosting the LP */
		cur_dest = m->dest;
		cur_was_anti = (atomic_load_explicit(&m->flags, memory_order_relaxed) & MSG_FLAG_ANTI) != 0;
		snprintf(cur_str, sizeof cur_str, "%s pl=%016lx", msg_str(m), (unsigned long)vm_payload_hash(m->pl, m->pl_size));
	}
	if(m) {
		struct rec *r = rec_of(m, 0);
		if(!r || r->where != W_QUEUE)
			rs_fail("extracted a message that was not queued: %s", msg_str(m));
		r->where = W_NONE;
		n_queue--;
	}
	return m;
}

struct lp_msg *vw_msg_allocator_alloc(unsigned payload_size)
{
	struct lp_msg *m = msg_allocator_alloc(payload_size);
	struct rec *r = rec_of(m, 0);
	if(r)
		rs_fail("message buffer handed out twice (still %s)", r->where == W_POOL ? "in flight" : r->where == W_QUEUE ? "queued" : "in use");
	rec_of(m, 1);
	return m;
}

static void free_common(struct lp_msg *m, const char *who, int commit)
{
	struct rec *r = rec_of(m, 0);
	if(!r)
		rs_fail("%s frees a message that is not live (double free?): %p", who, (void *)m);
	if(r->where == W_POOL || r->where == W_QUEUE)
		rs_fail("%s frees a message that is still %s: %s", who, r->where == W_POOL ? "in flight" : "queued", msg_str(m));
	if(commit && r->remote_sent)
		commit = 0; /* the sender's copy of a remote message: released with the (committed) event that sent it */
	if(commit) {
		if(!in_collect)
			rs_engine_error("fossil.c released a message outside fossil_lp_collect()");
		if((uintptr_t)m != (uintptr_t)unmark_msg(m))
			rs_fail("fossil collection frees a marked pointer");
		memcpy(&cbuf[ncbuf].m, m, offsetof(struct lp_msg, pl)); /* header only; the payload is hashed now */
		cbuf[ncbuf].plh = vm_payload_hash(m->pl, m->pl_size);
		cbuf[ncbuf].has_h = r->has_h;
		cbuf[ncbuf].h_after = r->h_after;
		ncbuf++;
		rs_count(C_FOSSIL_MSGS, 1);
	}
	rec_drop(r);
	msg_allocator_free(m);
}
void vw_msg_allocator_free(struct lp_msg *m)
{
	free_common(m, "lp/process.c", 0);
}
void vw_fossil_msg_allocator_free(struct lp_msg *m)
{
	free_common(m, "fossil collection", 1);
}

static unsigned nrollbacks;
extern array_count_t model_allocator_checkpoint_restore(struct mm_state *self, array_count_t ref_i);
array_count_t vw_model_allocator_checkpoint_restore(struct mm_state *self, array_count_t ref_i)
{
	nrollbacks++;
	rs_count(C_ROLLBACK, 1);
	lp_id_t l = (lp_id_t)(current_lp - lps);
	rs_logf("    LP %lu rolls back to history position %u\n", (unsigned long)l, (unsigned)ref_i);
	if(fossil_happened[l])
		rs_count(C_ROLLBACK_AFTER_FOSSIL, 1);
	if(ref_i == 0) {
		if(!fossil_happened[l])
			rs_fail("rollback to before LP_INIT: LP %lu", (unsigned long)l);
		rs_count(C_TO_POS0, 1);
	}
	return model_allocator_checkpoint_restore(self, ref_i);
}

/* ---- remote messages (rm=1, binary built with -DHPROC_REMOTE against the real distributed/mpi.c) ----
 * The LPs are spread over 2 nodes by the runtime's own lid_to_nid(); `nid` follows the LP whose call is running.  What an LP sends
 * to an LP of the other node goes through the real mpi_remote_msg_send()/mpi_remote_anti_msg_send() into MPI_Isend() below, which
 * keeps the bytes on a wire pool; a step W(w) makes exactly that message visible to MPI_Improbe() and runs the real
 * mpi_remote_msg_handle() on the destination node (allocation, copy, gvt_remote_*_receive, queue insertion), then process_msg().
 * Every order of wire deliveries is explored: with several receiver threads (match in one thread, insert later) every order is a
 * behaviour of the real runtime, in particular an anti-message overtaking the event it cancels. */
static uint64_t content_key(const struct lp_msg *m)
{
	uint64_t h = rs_mix(m->dest, (uint64_t)(m->dest_t * 16.0));
	h = rs_mix(h, m->m_type);
	h = rs_mix(h, m->pl_size);
	return rs_mix(h, vm_payload_hash(m->pl, m->pl_size));
}
#define MAXWIRE 256
struct wire {
	unsigned char data[256];
	int size, dest_nid, anti;
	uint64_t key;
	unsigned seq;
	double t;
};
static struct wire wires[MAXWIRE];
static int nwires, sending_anti;
static struct wire *visible;
static struct { uint32_t id, seq; uint64_t key; } idmap[4 * MAXREC];
static int n_idmap;

extern void mpi_remote_msg_send(struct lp_msg *msg, nid_t dest_nid);
extern void mpi_remote_anti_msg_send(struct lp_msg *msg, nid_t dest_nid);
extern void msg_allocator_free_at_gvt(struct lp_msg *msg);
void vw_mpi_remote_msg_send(struct lp_msg *msg, nid_t dest_nid)
{
	struct rec *r = rec_of(msg, 1);
	r->remote_sent = 1;
	r->where = W_NONE;
	sending_anti = 0;
	mpi_remote_msg_send(msg, dest_nid);
}
void vw_mpi_remote_anti_msg_send(struct lp_msg *msg, nid_t dest_nid)
{
	struct rec *r = rec_of(msg, 0);
	if(!r || !r->remote_sent)
		rs_fail("remote anti-message sent for a message that is not a live remote send: %p", (void *)msg);
	sending_anti = 1;
	mpi_remote_anti_msg_send(msg, dest_nid);
	sending_anti = 0;
}
void vw_msg_allocator_free_at_gvt(struct lp_msg *msg)
{
	struct rec *r = rec_of(msg, 0);
	if(!r)
		rs_fail("lp/process.c schedules the release of a message that is not live (double free?): %p", (void *)msg);
	rec_drop(r); /* from now on the buffer belongs to the allocator, which releases it below a later GVT */
	msg_allocator_free_at_gvt(msg);
}

#ifdef HPROC_REMOTE
#include <mpi.h>
#include <distributed/mpi.h>
int MPI_Isend(const void *buf, int count, MPI_Datatype dt, int dest, int tag, MPI_Comm c, MPI_Request *req)
{
	(void)dt, (void)c;
	*req = MPI_REQUEST_NULL;
	if(tag != 0 || count <= (int)sizeof(int) || count > (int)sizeof(wires[0].data))
		rs_engine_error("unexpected MPI_Isend (tag %d, %d bytes)", tag, count);
	if(nwires >= MAXWIRE)
		rs_engine_error("wire pool full");
	const struct lp_msg *m = (const struct lp_msg *)((const char *)buf - offsetof(struct lp_msg, dest));
	struct wire *w = &wires[nwires++];
	memset(w, 0, sizeof *w);
	memcpy(w->data, buf, (size_t)count);
	w->size = count;
	w->dest_nid = dest;
	w->anti = sending_anti;
	w->t = m->dest_t;
	w->seq = seq_ctr++;
	w->key = rs_mix(content_key(m), sending_anti ? 0xa17 : 0x905);
	if(dest != (int)lid_to_nid(m->dest))
		rs_fail("remote message sent to node %d, its destination LP %lu lives on node %d", dest, (unsigned long)m->dest, (int)lid_to_nid(m->dest));
	if(!sending_anti) {
		if(n_idmap >= 4 * MAXREC)
			rs_engine_error("id map full");
		idmap[n_idmap].id = m->raw_flags & ~3u;
		idmap[n_idmap].seq = m->m_seq;
		idmap[n_idmap++].key = content_key(m);
	}
	rs_logf("    on the wire to node %d: %s%s pl=%016lx\n", dest, sending_anti ? "ANTI " : "", msg_str(m), (unsigned long)vm_payload_hash(m->pl, m->pl_size));
	return MPI_SUCCESS;
}
int MPI_Request_free(MPI_Request *req) { (void)req; return MPI_SUCCESS; }
int MPI_Improbe(int source, int tag, MPI_Comm c, int *flag, MPI_Message *msg, MPI_Status *st)
{
	(void)source, (void)tag, (void)c;
	*flag = visible != NULL;
	if(visible) {
		*msg = (MPI_Message)visible;
		st->MPI_SOURCE = !visible->dest_nid;
		st->MPI_TAG = 0;
		st->MPI_ERROR = 0;
		st->count = visible->size;
	}
	return MPI_SUCCESS;
}
int MPI_Get_count(const MPI_Status *st, MPI_Datatype dt, int *count) { (void)dt; *count = st->count; return MPI_SUCCESS; }
int MPI_Mrecv(void *buf, int count, MPI_Datatype dt, MPI_Message *msg, MPI_Status *st)
{
	(void)dt, (void)st;
	struct wire *w = (struct wire *)*msg;
	if(w != visible)
		rs_engine_error("MPI_Mrecv of a message that was not matched");
	if(count < w->size)
		rs_fail("MPI_Mrecv with a %d-byte buffer for a %d-byte message", count, w->size);
	memcpy(buf, w->data, (size_t)w->size);
	*w = wires[--nwires];
	visible = NULL;
	return MPI_SUCCESS;
}
#define NOTUSED(name) rs_engine_error(name " is not expected in h_proc"); return 1
int MPI_Init_thread(int *argc, char ***argv, int required, int *provided) { (void)argc, (void)argv, (void)required, (void)provided; NOTUSED("MPI_Init_thread"); }
int MPI_Finalize(void) { NOTUSED("MPI_Finalize"); }
int MPI_Comm_create_errhandler(MPI_Comm_errhandler_function *f, MPI_Errhandler *e) { (void)f, (void)e; NOTUSED("MPI_Comm_create_errhandler"); }
int MPI_Comm_set_errhandler(MPI_Comm c, MPI_Errhandler e) { (void)c, (void)e; NOTUSED("MPI_Comm_set_errhandler"); }
int MPI_Comm_get_errhandler(MPI_Comm c, MPI_Errhandler *e) { (void)c, (void)e; NOTUSED("MPI_Comm_get_errhandler"); }
int MPI_Errhandler_free(MPI_Errhandler *e) { (void)e; NOTUSED("MPI_Errhandler_free"); }
int MPI_Error_string(int code, char *s, int *len) { (void)code, (void)s, (void)len; NOTUSED("MPI_Error_string"); }
int MPI_Comm_rank(MPI_Comm c, int *rank) { (void)c, (void)rank; NOTUSED("MPI_Comm_rank"); }
int MPI_Comm_size(MPI_Comm c, int *size) { (void)c, (void)size; NOTUSED("MPI_Comm_size"); }
int MPI_Send(const void *buf, int count, MPI_Datatype dt, int dest, int tag, MPI_Comm c) { (void)buf, (void)count, (void)dt, (void)dest, (void)tag, (void)c; NOTUSED("MPI_Send"); }
int MPI_Mprobe(int source, int tag, MPI_Comm c, MPI_Message *msg, MPI_Status *st) { (void)source, (void)tag, (void)c, (void)msg, (void)st; NOTUSED("MPI_Mprobe"); }
int MPI_Ireduce_scatter_block(const void *sendbuf, void *recvbuf, int recvcount, MPI_Datatype dt, MPI_Op op, MPI_Comm c, MPI_Request *req) { (void)sendbuf, (void)recvbuf, (void)recvcount, (void)dt, (void)op, (void)c, (void)req; NOTUSED("MPI_Ireduce_scatter_block"); }
int MPI_Iallreduce(const void *sendbuf, void *recvbuf, int count, MPI_Datatype dt, MPI_Op op, MPI_Comm c, MPI_Request *req) { (void)sendbuf, (void)recvbuf, (void)count, (void)dt, (void)op, (void)c, (void)req; NOTUSED("MPI_Iallreduce"); }
int MPI_Test(MPI_Request *req, int *flag, MPI_Status *st) { (void)req, (void)flag, (void)st; NOTUSED("MPI_Test"); }
int MPI_Barrier(MPI_Comm c) { (void)c; NOTUSED("MPI_Barrier"); }

/* msg_queue_insert() as called by distributed/mpi.c: the received copy reaches the queue of its LP's worker */
void vw_mpi_msg_queue_insert(struct lp_msg *m)
{
	struct rec *r = rec_of(m, 0);
	if(!r)
		rs_engine_error("mpi.c inserted a message it did not allocate");
	real_insert(m, r);
}
static void deliver_wire(struct wire *w)
{
	rs_logf("wire delivery to node %d: %s%u bytes t=%g\n", w->dest_nid, w->anti ? "ANTI " : "", (unsigned)w->size, w->t);
	nid = (nid_t)w->dest_nid;
	visible = w;
	mpi_remote_msg_handle();
	if(visible)
		rs_engine_error("mpi_remote_msg_handle() did not receive the visible message");
}
#else
static void deliver_wire(struct wire *w) { (void)w; rs_engine_error("rm=1 needs the binary built with -DHPROC_REMOTE"); }
#endif

static int wires_sorted(struct wire **out)
{
	int n = 0;
	for(int i = 0; i < nwires; ++i)
		out[n++] = &wires[i];
	for(int i = 1; i < n; ++i)
		for(int j = i; j > 0; --j) {
			const struct wire *a = out[j - 1], *b = out[j];
			int gt = a->t > b->t || (a->t == b->t && (a->key > b->key || (a->key == b->key && a->seq > b->seq)));
			if(!gt)
				break;
			struct wire *t = out[j - 1];
			out[j - 1] = out[j];
			out[j] = t;
		}
	return n;
}
static uint64_t early_key(const struct lp_msg *a)
{
	for(int i = 0; i < n_idmap; ++i)
		if(idmap[i].id == (a->raw_flags & ~3u) && idmap[i].seq == a->m_seq)
			return idmap[i].key;
	return rs_mix(a->dest, (uint64_t)(a->dest_t * 16.0));
}

extern void process_lp_init(struct lp_ctx *lp);
void vw_process_lp_init(struct lp_ctx *lp)
{
	if(P_rm)
		nid = lid_to_nid(lp - lps);
	process_lp_init(lp);
}

/* ---- invariants after a step ---- */
static void check_lp(lp_id_t l, const char *after)
{
	struct lp_ctx *lp = &lps[l];
	struct lp_msg *prev = NULL, *last = NULL;
	int doomed = 0;
	for(array_count_t i = 0; i < array_count(lp->p.p_msgs); ++i) {
		struct lp_msg *m = array_get_at(lp->p.p_msgs, i);
		if(!is_msg_past(m))
			continue;
		last = m;
		if(m->raw_flags & MSG_FLAG_ANTI)
			doomed = 1; /* its sender took it back: the anti-message on its way will remove it and everything after it */
		if(doomed)
			continue;
		if(prev && msg_is_before(m, prev))
			rs_fail("history of LP %lu is out of timestamp order after %s: %s is recorded as processed before %s", (unsigned long)l, after,
			    msg_str(prev), msg_str(m));
		prev = m;
		struct rec *r = rec_of(m, 0);
		if(!r)
			rs_fail("history of LP %lu refers to a freed message after %s", (unsigned long)l, after);
	}
	if(last) {
		struct rec *r = rec_of(last, 0);
		struct lp_ctx *save = current_lp;
		current_lp = lp;
		uint64_t d = vm_full_digest(lp->state_pointer);
		current_lp = save;
		if(r->has_h && r->h_after != d)
			rs_fail("state of LP %lu after %s is not the state its last processed event %s produced (rollback / coast forward inexact)",
			    (unsigned long)l, after, msg_str(last));
	}
}

static void do_process(const char *what)
{
	unsigned rb0 = nrollbacks, d0 = ndisp;
	in_process = 1;
	cur_msg = NULL;
	call_reported = call_sent = SIMTIME_MAX;
	process_msg();
	in_process = 0;
	if(call_sent < call_reported) {
		if(call_reported == SIMTIME_MAX)
			rs_fail("GVT accounting: a process_msg() call put %s in flight without reporting any extraction to the GVT module: a reduction "
				"running now can return a GVT above it", call_sent_str);
		rs_fail("GVT accounting: a process_msg() call put %s in flight but reported only an extraction at t=%g to the GVT module",
		    call_sent_str, call_reported);
	}
	if(call_sent < SIMTIME_MAX)
		rs_count(C_ACCT_CHECKED, 1);
	if(call_sent < SIMTIME_MAX && cur_was_anti)
		rs_count(C_ANTI_CASCADE, 1); /* an extracted anti-message made this call put something (anti-messages) in flight */
	rs_count(C_STEPS, 1);
	if(!cur_msg)
		return;
	lp_id_t l = cur_dest;
	rs_logf("  process_msg extracted %s, history of LP %lu now %u entries\n", cur_str, (unsigned long)l, (unsigned)array_count(lps[l].p.p_msgs));
	/* was it executed forward?  then it is the last entry of the history and last_digest is its state */
	struct lp_ctx *lp = &lps[l];
	if(array_count(lp->p.p_msgs) && array_peek(lp->p.p_msgs) == cur_msg) {
		struct rec *r = rec_of(cur_msg, 0);
		if(!r)
			rs_fail("processed message is not live");
		r->has_h = 1;
		r->h_after = last_digest;
		if(ndisp - d0 > 1)
			rs_count(C_SILENT, ndisp - d0 - 1);
	} else if(ndisp != d0 && nrollbacks != rb0)
		rs_count(C_SILENT, ndisp - d0);
	for(unsigned k = 0; k < VM.n_lps; ++k)
		check_lp(k, what);
}

/* ---- pool ---- */
static int pool_sorted(struct rec **out)
{
	int n = 0;
	for(int i = 0; i < nrecs; ++i)
		if(recs[i].where == W_POOL)
			out[n++] = &recs[i];
	/* canonical order: by content, then by age */
	for(int i = 1; i < n; ++i)
		for(int j = i; j > 0; --j) {
			const struct lp_msg *a = out[j - 1]->m, *b = out[j]->m;
			int gt = a->dest_t > b->dest_t || (a->dest_t == b->dest_t && (a->dest > b->dest || (a->dest == b->dest &&
			    (msg_key(a) > msg_key(b) || (msg_key(a) == msg_key(b) && out[j - 1]->seq > out[j]->seq)))));
			if(!gt)
				break;
			struct rec *t = out[j - 1];
			out[j - 1] = out[j];
			out[j] = t;
		}
	return n;
}

static double true_min(void)
{
	double mn = msg_queue_time_peek();
	for(int i = 0; i < nrecs; ++i)
		if(recs[i].where == W_POOL && recs[i].m->dest_t < mn)
			mn = recs[i].m->dest_t;
	for(int i = 0; i < nwires; ++i)
		if(wires[i].t < mn)
			mn = wires[i].t;
	return mn;
}

static int something_to_commit(double g)
{
	for(unsigned l = 0; l < VM.n_lps; ++l) {
		struct lp_ctx *lp = &lps[l];
		for(array_count_t i = 0; i < array_count(lp->p.p_msgs); ++i) {
			struct lp_msg *m = array_get_at(lp->p.p_msgs, i);
			if(is_msg_past(m) && m->dest_t < g && m->dest_t >= gvt_now)
				return 1;
		}
	}
	return 0;
}

static void announce(double g)
{
	gvt_now = g;
	gvt_count++;
	rs_logf("GVT %g announced\n", g);
	rs_count(C_GVT, 1);
	auto_ckpt_on_gvt();
	fossil_on_gvt(g);
	msg_allocator_on_gvt(g);
}

/* ---- complete-state digest ---- */
static uint64_t digest(void)
{
	if(!lps)
		return 1;
	uint64_t h = rs_mix(7, (uint64_t)(gvt_now * 16.0));
	for(unsigned l = 0; l < VM.n_lps; ++l) {
		struct lp_ctx *lp = &lps[l];
		h = rs_mix(h, 0x1000 + l);
		for(array_count_t i = 0; i < array_count(lp->p.p_msgs); ++i) {
			struct lp_msg *m = array_get_at(lp->p.p_msgs, i);
			h = rs_mix(h, is_msg_sent(m));
			if(is_msg_past(m) || rec_of(unmark_msg(m), 0))
				h = rs_mix(h, msg_key(unmark_msg(m)));
			else
				h = rs_mix(h, 0xdead); /* sent mark of a message the receiver already committed and released */
		}
		struct lp_ctx *save = current_lp;
		current_lp = lp;
		h = rs_mix(h, lp->state_pointer ? vm_full_digest(lp->state_pointer) : 0);
		current_lp = save;
		for(array_count_t i = 0; i < array_count(lp->mm_state.logs); ++i)
			h = rs_mix(h, array_get_at(lp->mm_state.logs, i).ref_i);
		h = rs_mix(h, lp->auto_ckpt.ckpt_rem);
		h = rs_mix(h, lp->auto_ckpt.ckpt_interval);
		if(!P_ckpt) /* the good/bad counters only feed the automatic interval */
			h = rs_mix(h, lp->auto_ckpt.m_bad * 1000u + lp->auto_ckpt.m_good);
		h = rs_mix(h, lp->fossil_epoch != fossil_epoch_current);
		h = rs_mix(h, (uint64_t)(lp->p.bound * 16.0));
		h = rs_mix(h, committed_n[l]);
		uint64_t se = 0;
		for(const struct lp_msg *a = lp->p.early_antis; P_rm && a; a = a->next)
			se += rs_mix(19, early_key(a));
		h = rs_mix(h, se);
	}
	/* in flight and queued: multisets */
	uint64_t sp = 0, sq = 0;
	for(int i = 0; i < nwires; ++i)
		sp += rs_mix(17, wires[i].key);
	for(int i = 0; i < nrecs; ++i) {
		if(recs[i].where == W_POOL)
			sp += rs_mix(11, msg_key(recs[i].m));
		else if(recs[i].where == W_QUEUE)
			sq += rs_mix(13, msg_key(recs[i].m));
	}
	h = rs_mix(h, sp);
	return rs_mix(h, sq);
}

static void describe(char *buf, size_t cap)
{
	snprintf(buf, cap, "gvt=%g announcements=%u in_queue=%d", gvt_now, gvt_count, n_queue);
}

static void final_oracle(void)
{
	rs_count(C_QUIESCENT, 1);
	for(unsigned l = 0; l < VM.n_lps; ++l) {
		struct lp_ctx *lp = &lps[l];
		unsigned k = committed_n[l];
		for(array_count_t i = 0; i < array_count(lp->p.p_msgs); ++i) {
			struct lp_msg *m = array_get_at(lp->p.p_msgs, i);
			if(!is_msg_past(m) || m->m_type == LP_INIT)
				continue;
			if(k >= REF.per_lp_n[l])
				rs_fail("at quiescence LP %lu has processed an event the sequential execution never delivers: %s", (unsigned long)l, msg_str(m));
			const struct rx_event *e = &REF.ev[REF.per_lp[l][k]];
			if(e->t != m->dest_t || e->type != m->m_type || e->size != m->pl_size || e->plh != vm_payload_hash(m->pl, m->pl_size))
				rs_fail("at quiescence the history of LP %lu differs from the sequential execution at delivery #%u: %s, sequential (t=%g "
					"type=%u size=%u)",
				    (unsigned long)l, k, msg_str(m), e->t, e->type, e->size);
			struct rec *r = rec_of(m, 0);
			if(r && r->has_h && r->h_after != e->h_after)
				rs_fail("at quiescence the state of LP %lu after delivery #%u differs from the sequential execution", (unsigned long)l, k);
			k++;
		}
		if(k != REF.per_lp_n[l])
			rs_fail("at quiescence LP %lu has processed %u events, the sequential execution delivers %u", (unsigned long)l, k, REF.per_lp_n[l]);
		struct lp_ctx *save = current_lp;
		current_lp = lp;
		uint64_t d = vm_full_digest(lp->state_pointer);
		current_lp = save;
		if(d != REF.h_final[l])
			rs_fail("end state of LP %lu differs from the sequential execution", (unsigned long)l);
		if(P_rm && lp->p.early_antis)
			rs_fail("at quiescence LP %lu still holds an early remote anti-message (t=%g) that never met its event", (unsigned long)l,
			    lp->p.early_antis->dest_t);
		rs_obs(d);
	}
}

static void body(void)
{
	if(vm_parse(P_model, &VM))
		rs_engine_error("bad model '%s'", P_model);
	if(VM.pred != VP_NEVER && VM.pred != VP_COUNT_CONT)
		rs_engine_error("h_proc wants a model whose LPs never stop changing (P4/P5)");
	global_config.lps = VM.n_lps;
	global_config.n_threads = 1;
	global_config.termination_time = 0;
	global_config.gvt_period = 1000000000u;
	global_config.log_level = LOG_SILENT;
	global_config.prng_seed = 4242;
	global_config.ckpt_interval = (unsigned)P_ckpt;
	global_config.serial = false;
	global_config.stats_file = NULL;
	global_config.dispatcher = h_dispatch;
	global_config.committed = vm_can_end;
	rx_run(&REF, 4242);
	if(REF.overflow)
		rs_engine_error("model '%s' has too many events for the reference log", P_model);
	vm_env = &vm_core_env;

	/* what parallel_global_init() / worker_thread_init() do, minus statistics files and threads */
	lp_global_init();
	msg_queue_global_init();
	termination_global_init();
	rid = 0;
	auto_ckpt_init();
	msg_allocator_init();
	msg_queue_init();
	if(P_rm)
		n_nodes = 2; /* lps[] was allocated for all LPs above (one node); from here on routing sees two nodes */
	lp_init();
	for(unsigned l = 0; l < VM.n_lps; ++l) {
		struct rec *r = rec_of(array_get_at(lps[l].p.p_msgs, array_count(lps[l].p.p_msgs) - 1), 0);
		if(!r)
			rs_engine_error("LP_INIT message of LP %u not seen", l);
		current_lp = &lps[l];
		r->has_h = 1;
		r->h_after = vm_full_digest(lps[l].state_pointer);
	}
	current_lp = NULL;
	for(unsigned l = 0; l < VM.n_lps; ++l)
		check_lp(l, "LP_INIT");

	unsigned nsteps = 0, max_steps = (unsigned)rs_param_int("maxsteps", 100 + 40 * (long)REF.n);
	for(;;) {
		if(++nsteps > max_steps)
			rs_fail("no quiescence after %u steps of a model with %u events: rollbacks and re-executions do not converge", max_steps, REF.n);
		struct rec *pool[MAXREC];
		int np = pool_sorted(pool);
		if(np > 0)
			rs_count_max(C_HELD_MAX, (uint64_t)np);
		struct wire *wl[MAXWIRE];
		int nw = wires_sorted(wl);
		if(np + nw > 0)
			rs_count_max(C_HELD_MAX, (uint64_t)(np + nw));
		if(!np && !n_queue && !nw)
			break;
		/* menu */
		enum { O_P, O_D, O_G, O_GLOW, O_W };
		int kind[MAXREC + MAXWIRE + 4], arg[MAXREC + MAXWIRE + 4], n = 0;
		if(n_queue) {
			kind[n] = O_P;
			arg[n++] = 0;
		}
		for(int i = 0; i < np; ++i) {
			if(i && msg_key(pool[i]->m) == msg_key(pool[i - 1]->m))
				continue; /* indistinguishable from the previous one */
			kind[n] = O_D;
			arg[n++] = i;
		}
		for(int i = 0; i < nw; ++i) {
			if(i && wl[i]->key == wl[i - 1]->key && wl[i]->t == wl[i - 1]->t)
				continue; /* indistinguishable from the previous one */
			kind[n] = O_W;
			arg[n++] = i;
		}
		double mn = true_min();
		if((int)gvt_count < P_maxg && mn > gvt_now && something_to_commit(mn)) {
			kind[n] = O_G;
			arg[n++] = 0;
			if(P_glow && mn - 1 > gvt_now && something_to_commit(mn - 1)) {
				kind[n] = O_GLOW;
				arg[n++] = 0;
			}
		}
		int c = rs_choose(n, "step");
		switch(kind[c]) {
			case O_P:
				do_process("process_msg");
				break;
			case O_D: {
				struct rec *r = pool[arg[c]];
				if(atomic_load_explicit(&r->m->flags, memory_order_relaxed) & MSG_FLAG_ANTI) {
					rs_count(C_ANTI, 1);
					if(!(atomic_load_explicit(&r->m->flags, memory_order_relaxed) & MSG_FLAG_PROCESSED))
						rs_count(C_ANTI_UNPROCESSED, 1);
				}
				rs_count(C_DELIVER, 1);
				rs_logf("deliver %s pl=%016lx\n", msg_str(r->m), (unsigned long)vm_payload_hash(r->m->pl, r->m->pl_size));
				real_insert(r->m, r);
				do_process("delivery + process_msg");
				break;
			}
			case O_G:
				announce(mn);
				break;
			case O_W:
				rs_count(C_DELIVER, 1);
				rs_count(C_REMOTE, 1);
				if(wl[arg[c]]->anti)
					rs_count(C_REMOTE_ANTI, 1);
				deliver_wire(wl[arg[c]]);
				do_process("remote delivery + process_msg");
				for(unsigned l = 0; l < VM.n_lps; ++l)
					if(lps[l].p.early_antis)
						rs_count(C_EARLY_ANTI, 1);
				break;
			default:
				announce(mn - 1);
				break;
		}
	}
	final_oracle();
}

static void configure(int argc, char **argv)
{
	(void)argc, (void)argv;
	P_model = rs_param("m", P_model);
	P_ckpt = (int)rs_param_int("ck", P_ckpt);
	P_glow = (int)rs_param_int("glow", P_glow);
	P_maxg = (int)rs_param_int("maxg", P_maxg);
	P_rm = (int)rs_param_int("rm", P_rm);
}

static const struct rs_harness H = {
    .name = "h_proc",
    .configure = configure,
    .body = body,
    .digest = digest,
    .describe = describe,
    .counter_names = {"steps", "deliveries", "rollbacks", "anti_messages_delivered", "gvt_announcements", "fossil_released_msgs", "commits_checked",
	"quiescent_ends", "rollbacks_after_fossil", "rollbacks_to_kept_checkpoint", "max_in_flight", "anti_for_unprocessed", "silent_executions", "sends_accounting_checked", "anti_cascade",
	"remote_deliveries", "remote_anti_deliveries", "early_remote_antis"},
};

int main(int argc, char **argv)
{
	return rs_main(argc, argv, &H);
}
