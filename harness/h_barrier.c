/* h_barrier - C17: the real sync_thread_barrier() of core/sync.c under rsched.
 * T threads; either K consecutive uses each (stateless bounded search) or an endless
 * cyclic driver (stateful search until the state graph is closed).
 * Oracle: nobody returns from use k before all T threads entered use k; exactly one
 * leader per use; no deadlock (engine). */
#include "../engine/rsched.h"
#include <ROOT-Sim.h>
#include <core/core.h>
#include <core/sync.h>
#include <string.h>

struct simulation_configuration global_config;
__thread rid_t rid;

static int T = 2, K = 3, cyclic = 0;
#define W 4 /* window of use slots (the barrier's phase has period 4) */
static int entered[RS_MAXT], returned[RS_MAXT]; /* per thread: uses entered / returned */
static int arrivals[W], leaders[W], returns[W];
static int inside[RS_MAXT];
static uint64_t last_rmw_before[RS_MAXT];
static const volatile void *words[4];
static int nwords;

enum { C_FAST_REENTRY, C_USES, C_LEADER_LAST, C_LEADER_FIRST };

static void on_op(int kind, const volatile void *addr, unsigned size, const char *file, int line, uint64_t before,
    uint64_t after)
{
	(void)size;
	(void)line;
	(void)after;
	if(!strstr(file, "core/sync.c"))
		return;
	int f = 0;
	for(int i = 0; i < nwords; ++i)
		f |= words[i] == addr;
	if(!f && nwords < 4)
		words[nwords++] = addr;
	if(kind != 1 /* not a load */)
		last_rmw_before[rs_self()] = before;
}

static void *worker(void *arg)
{
	int t = (int)(long)arg;
	rid = (rid_t)t;
	rs_set_role("barrier-thread");
	for(int k = 0; cyclic || k < K; ++k) {
		int u = entered[t];
		int s = u % W;
		/* a thread entering use u has returned from u-1, hence everybody entered u-1; if somebody has
		 * not even returned from u-2 the window bookkeeping would alias: that is itself an early pass */
		for(int o = 0; o < T; ++o)
			if(entered[o] < u - 1)
				rs_fail("thread %d enters use %d while thread %d has only entered %d uses", t, u, o, entered[o]);
		for(int o = 0; o < T; ++o)
			if(o != t && inside[o] && entered[o] == u) /* o is still inside use u-1 */
				rs_count(C_FAST_REENTRY, 1);
		entered[t] = u + 1;
		arrivals[s]++;
		inside[t] = 1;
		bool l = sync_thread_barrier();
		inside[t] = 0;
		if(arrivals[s] != T)
			rs_fail("thread %d returned from use %d after only %d of %d threads entered it", t, u, arrivals[s], T);
		leaders[s] += l;
		if(l && returns[s] == T - 1)
			rs_count(C_LEADER_LAST, 1);
		if(l && returns[s] == 0)
			rs_count(C_LEADER_FIRST, 1);
		returns[s]++;
		returned[t] = u + 1;
		if(leaders[s] > 1)
			rs_fail("use %d: %d leaders", u, leaders[s]);
		if(returns[s] == T) {
			if(leaders[s] != 1)
				rs_fail("use %d: %d leaders after all %d threads returned", u, leaders[s], T);
			arrivals[s] = leaders[s] = returns[s] = 0;
			rs_count(C_USES, 1);
			rs_obs((uint64_t)t);
			if(cyclic) {
				/* keep counters bounded: shift everybody by W once all are >= W */
				int mn = entered[0];
				for(int o = 1; o < T; ++o)
					mn = entered[o] < mn ? entered[o] : mn;
				for(int o = 0; o < T; ++o)
					mn = returned[o] < mn ? returned[o] : mn;
				if(mn >= W)
					for(int o = 0; o < T; ++o) {
						entered[o] -= W;
						returned[o] -= W;
					}
			}
		}
	}
	return NULL;
}

static int T2, K2; /* optional second team (other threads, other size) after the first one finished a multiple of 4 uses */

static void run_team(void)
{
	global_config.n_threads = (unsigned)T;
	int ids[RS_MAXT];
	for(int t = 0; t < T; ++t)
		ids[t] = rs_thread_create(worker, (void *)(long)t);
	for(int t = 0; t < T; ++t)
		rs_thread_join(ids[t]);
	for(int t = 0; t < T; ++t)
		if(returned[t] != K)
			rs_fail("thread %d completed %d of %d uses", t, returned[t], K);
}

static void body(void)
{
	run_team();
	if(T2) {
		/* what two consecutive simulation runs of one process with different thread counts do */
		T = T2;
		K = K2;
		memset(entered, 0, sizeof entered);
		memset(returned, 0, sizeof returned);
		memset(inside, 0, sizeof inside);
		memset(arrivals, 0, sizeof arrivals);
		memset(leaders, 0, sizeof leaders);
		memset(returns, 0, sizeof returns);
		run_team();
	}
}

static uint64_t digest(void)
{
	uint64_t h = 17;
	/* the barrier's shared words, in address order */
	const volatile void *w[4];
	int n = nwords;
	memcpy(w, words, sizeof w);
	for(int i = 0; i < n; ++i)
		for(int j = i + 1; j < n; ++j)
			if(w[j] < w[i]) {
				const volatile void *x = w[i];
				w[i] = w[j];
				w[j] = x;
			}
	for(int i = 0; i < n; ++i)
		h = rs_mix(h, *(const volatile unsigned *)w[i]);
	for(int t = 0; t < T; ++t) {
		h = rs_mix(h, (uint64_t)entered[t]);
		h = rs_mix(h, (uint64_t)returned[t]);
		h = rs_mix(h, (uint64_t)inside[t]);
		h = rs_mix(h, inside[t] ? last_rmw_before[t] : 0);
	}
	for(int s = 0; s < W; ++s) {
		h = rs_mix(h, (uint64_t)arrivals[s]);
		h = rs_mix(h, (uint64_t)leaders[s]);
		h = rs_mix(h, (uint64_t)returns[s]);
	}
	return h;
}

static int fine(const char *file)
{
	return strstr(file, "core/sync.c") != NULL;
}

static void configure(int argc, char **argv)
{
	(void)argc;
	(void)argv;
	T = (int)rs_param_int("T", 2);
	K = (int)rs_param_int("K", 3);
	cyclic = (int)rs_param_int("cyclic", 0);
	T2 = (int)rs_param_int("T2", 0);
	K2 = (int)rs_param_int("K2", 4);
}

static const struct rs_harness H = {
    .name = "h_barrier",
    .configure = configure,
    .body = body,
    .digest = digest,
    .fine_file = fine,
    .on_op = on_op,
    .counter_names = {[C_FAST_REENTRY] = "fast_reentry", [C_USES] = "uses_completed", [C_LEADER_LAST] = "leader_returned_last",
	[C_LEADER_FIRST] = "leader_returned_first"},
};

int main(int argc, char **argv)
{
	return rs_main(argc, argv, &H);
}
