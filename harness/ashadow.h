/* ashadow.h - shadow model of the rollbackable allocator shared by s_alloc (C12), s_ckpt (C05)
 * and s_fossil (C13): a plain list of live blocks with a private copy of their content, plus
 * control over where new arenas land in the address space (pool slots handed out in a
 * harness-chosen order, so that "sorted by address" insertion is explored deterministically).
 *
 * The core sources mm/buddy/{multi,buddy,ckpt}.c are compiled with -Dmalloc=vw_malloc -Dfree=vw_free. */
#ifndef ASHADOW_H
#define ASHADOW_H
#include "sx.h"
#include <ROOT-Sim.h>
#include <core/core.h>
#include <errno.h>
#include <lp/lp.h>
#include <log/log.h>
#include <mm/buddy/buddy.h>
#include <mm/buddy/ckpt.h>
#include <mm/buddy/multi.h>
#include <mm/model_allocator.h>

struct simulation_configuration global_config;
__thread struct lp_ctx *current_lp;
struct lp_ctx *lps;
void vlogger(enum log_level level, char *file, unsigned line, const char *fmt, ...)
{
	(void)level, (void)file, (void)line, (void)fmt;
}

#define ARENA_SZ (1u << B_TOTAL_EXP)
#define BLK_SZ (1u << B_BLOCK_EXP)

/* ---- arena pool ---- */
#define NSLOT 6
static struct buddy_state as_pool[NSLOT];
static int as_slot_used[NSLOT];
static int as_slot_order[NSLOT] = {0, 1, 2, 3, 4, 5};
static int as_created;    /* arenas created so far in this run */
static int as_arena_ok;   /* set while inside an rs_* call */
static int as_max_arenas = NSLOT;
static int as_refused;    /* an allocation wanted more arenas than the run allows */

static struct buddy_state as_scratch[4];

void *vw_malloc(size_t sz)
{
	if(as_arena_ok && sz == sizeof(struct buddy_state)) {
		if(as_created >= as_max_arenas || as_created >= NSLOT) {
			as_refused = 1;
			/* hand out a scratch arena anyway so that the core does not crash; the caller discards the run */
			static int ns;
			return &as_scratch[ns++ & 3];
		}
		int s = as_slot_order[as_created++];
		as_slot_used[s] = 1;
		return &as_pool[s];
	}
	return malloc(sz);
}

void vw_free(void *p)
{
	if((char *)p >= (char *)as_pool && (char *)p < (char *)(as_pool + NSLOT)) {
		as_slot_used[(struct buddy_state *)p - as_pool] = 0;
		return;
	}
	if((char *)p >= (char *)as_scratch && (char *)p < (char *)(as_scratch + 4))
		return;
	free(p);
}

/* ---- shadow ---- */
#define AS_MAXB 24
struct as_blk {
	unsigned char *p;
	size_t req;
	unsigned char *copy; /* what the block must contain */
	int id;
	int born; /* history position at which the block got its current address */
};
struct as_shadow {
	struct as_blk b[AS_MAXB];
	int n;
};

static struct lp_ctx as_lp;
static struct as_shadow SHD;
static int as_next_id = 1;
static int as_pos; /* history position of the operation being executed (set by the harness) */
static char as_trace[1600];

static void as_reset(void)
{
	if(as_lp.mm_state.buddies.items)
		model_allocator_lp_fini(&as_lp.mm_state);
	for(int i = 0; i < SHD.n; ++i)
		free(SHD.b[i].copy);
	memset(&SHD, 0, sizeof SHD);
	memset(&as_lp, 0, sizeof as_lp);
	memset(as_slot_used, 0, sizeof as_slot_used);
	as_created = 0;
	as_refused = 0;
	as_next_id = 1;
	as_trace[0] = 0;
	current_lp = &as_lp;
	model_allocator_lp_init(&as_lp.mm_state);
}

static void as_tr(const char *fmt, ...)
{
	size_t l = strlen(as_trace);
	if(l > sizeof(as_trace) - 80)
		return;
	va_list ap;
	va_start(ap, fmt);
	vsnprintf(as_trace + l, sizeof(as_trace) - l, fmt, ap);
	va_end(ap);
}

static size_t as_rounded(size_t req)
{
	size_t r = BLK_SZ;
	while(r < req)
		r <<= 1;
	return r;
}

static int as_in_arena(const unsigned char *p, size_t len)
{
	struct mm_state *m = &as_lp.mm_state;
	for(array_count_t i = 0; i < array_count(m->buddies); ++i) {
		struct buddy_state *b = array_get_at(m->buddies, i);
		if(p >= b->base_mem && p + len <= b->base_mem + ARENA_SZ)
			return 1;
	}
	return 0;
}

static void as_fill(struct as_blk *b, unsigned salt)
{
	for(size_t i = 0; i < b->req; ++i)
		b->p[i] = b->copy[i] = (unsigned char)(b->id * 37 + i * 11 + salt);
}

/* every live block still holds what the shadow says; returns 0 and records a violation otherwise */
static int as_check_contents(const char *prop_sig)
{
	for(int i = 0; i < SHD.n; ++i)
		if(memcmp(SHD.b[i].p, SHD.b[i].copy, SHD.b[i].req)) {
			size_t k = 0;
			while(SHD.b[i].p[k] == SHD.b[i].copy[k])
				++k;
			sx_violation(prop_sig, "block #%d (req %zu) byte %zu is %02x, must be %02x; ops: %s", SHD.b[i].id, SHD.b[i].req,
			    k, SHD.b[i].p[k], SHD.b[i].copy[k], as_trace);
			return 0;
		}
	return 1;
}

/* structural invariants of a freshly returned block */
static int as_check_new(unsigned char *p, size_t req, const char *what)
{
	if(!as_in_arena(p, req)) {
		sx_violation("returned block not inside allocator-owned memory", "%s(%zu) -> %p; ops: %s", what, req, (void *)p,
		    as_trace);
		return 0;
	}
	size_t al = BLK_SZ < 16 ? BLK_SZ : 16;
	if((uintptr_t)p % al) {
		sx_violation("returned block misaligned", "%s(%zu) -> %p; ops: %s", what, req, (void *)p, as_trace);
		return 0;
	}
	for(int i = 0; i < SHD.n; ++i) {
		unsigned char *q = SHD.b[i].p;
		if(p < q + SHD.b[i].req && q < p + req) {
			sx_violation("returned block overlaps a live block", "%s(%zu) -> %p overlaps #%d [%p,+%zu); ops: %s", what, req,
			    (void *)p, SHD.b[i].id, (void *)q, SHD.b[i].req, as_trace);
			return 0;
		}
	}
	return 1;
}

/* bytes a full checkpoint writes for the current state (must never exceed full_ckpt_size) */
static size_t as_ckpt_bytes_needed(void)
{
	size_t n = offsetof(struct mm_checkpoint, chkps) + sizeof(struct buddy_state *);
	n += array_count(as_lp.mm_state.buddies) * offsetof(struct buddy_checkpoint, base_mem);
	for(int i = 0; i < SHD.n; ++i)
		n += as_rounded(SHD.b[i].req);
	return n;
}

static int as_check_ckpt_size(void)
{
	size_t need = as_ckpt_bytes_needed();
	if(as_lp.mm_state.full_ckpt_size < need) {
		sx_violation("checkpoint size accounting too small (checkpoint would overflow its buffer)",
		    "full_ckpt_size=%zu, a checkpoint writes %zu; ops: %s", (size_t)as_lp.mm_state.full_ckpt_size, need, as_trace);
		return 0;
	}
	return 1;
}

/* ---- operations; each returns 0 if a violation was recorded (caller abandons the sequence) ---- */
static int as_malloc(size_t req, int zero)
{
	int narenas = (int)array_count(as_lp.mm_state.buddies);
	as_tr(zero ? "C%zu " : "M%zu ", req);
	errno = 0;
	as_arena_ok = 1;
	unsigned char *p = zero ? rs_calloc(1, req) : rs_malloc(req);
	as_arena_ok = 0;
	if(as_refused)
		return 1;
	if(req == 0 || req > ARENA_SZ) {
		if(p) {
			sx_violation(req ? "over-size request did not fail" : "zero-size request did not fail", "%p; ops: %s", (void *)p,
			    as_trace);
			return 0;
		}
		if((int)array_count(as_lp.mm_state.buddies) != narenas) {
			sx_violation("failed request changed the allocator state", "arenas %d -> %d; ops: %s", narenas,
			    (int)array_count(as_lp.mm_state.buddies), as_trace);
			return 0;
		}
		return as_check_contents("failed request altered a live block") && as_check_ckpt_size();
	}
	if(!p) {
		sx_violation("valid request failed", "size %zu; ops: %s", req, as_trace);
		return 0;
	}
	if(SHD.n >= AS_MAXB)
		return 1;
	if(!as_check_new(p, req, zero ? "calloc" : "malloc"))
		return 0;
	struct as_blk *b = &SHD.b[SHD.n];
	b->p = p;
	b->req = req;
	b->id = as_next_id++;
	b->born = as_pos;
	b->copy = malloc(req);
	if(zero) {
		for(size_t i = 0; i < req; ++i)
			if(p[i]) {
				sx_violation("calloc memory not zeroed", "byte %zu = %02x; ops: %s", i, p[i], as_trace);
				return 0;
			}
	}
	SHD.n++;
	as_fill(b, 0);
	return as_check_contents("allocation altered another live block") && as_check_ckpt_size();
}

static int as_free(int j)
{
	if(j >= SHD.n)
		return 1;
	struct as_blk b = SHD.b[j];
	as_tr("F#%d ", b.id);
	int narenas = (int)array_count(as_lp.mm_state.buddies);
	/* poison so that a later calloc of the space must really zero it */
	memset(b.p, 0xa5, b.req);
	rs_free(b.p);
	SHD.b[j] = SHD.b[--SHD.n];
	if(!as_check_contents("free altered another live block"))
		return 0;
	/* freeing makes the space reusable: the same request must fit again without a new arena */
	as_arena_ok = 1;
	unsigned char *p = rs_malloc(b.req);
	as_arena_ok = 0;
	if(!p || (int)array_count(as_lp.mm_state.buddies) != narenas) {
		sx_violation("freed space not reusable", "malloc(%zu) after free of #%d %s; ops: %s", b.req, b.id,
		    p ? "needed a new arena" : "failed", as_trace);
		free(b.copy);
		return 0;
	}
	int ok = as_check_new(p, b.req, "malloc-after-free");
	rs_free(p);
	free(b.copy);
	return ok && as_check_ckpt_size();
}

static int as_realloc(int j, size_t req)
{
	if(j >= SHD.n)
		return 1;
	struct as_blk *b = &SHD.b[j];
	as_tr("R#%d,%zu ", b->id, req);
	as_arena_ok = 1;
	unsigned char *p = rs_realloc(b->p, req);
	as_arena_ok = 0;
	if(as_refused)
		return 1;
	if(req == 0 || req > ARENA_SZ) {
		if(p) {
			sx_violation("realloc to zero/over-size did not fail", "ops: %s", as_trace);
			return 0;
		}
		/* failed cleanly: the old block is intact */
		return as_check_contents("failed realloc altered a live block");
	}
	if(!p) {
		sx_violation("valid realloc failed", "ops: %s", as_trace);
		return 0;
	}
	size_t keep = req < b->req ? req : b->req;
	if(memcmp(p, b->copy, keep)) {
		sx_violation("realloc did not preserve the common prefix", "#%d %zu -> %zu; ops: %s", b->id, b->req, req, as_trace);
		return 0;
	}
	struct as_blk old = *b;
	SHD.b[j] = SHD.b[--SHD.n];
	if(!as_check_new(p, req, "realloc")) {
		free(old.copy);
		return 0;
	}
	struct as_blk *nb = &SHD.b[SHD.n++];
	nb->p = p;
	nb->req = req;
	nb->id = old.id;
	nb->born = (p == old.p) ? old.born : as_pos;
	nb->copy = malloc(req);
	memcpy(nb->copy, old.copy, keep);
	for(size_t i = keep; i < req; ++i)
		p[i] = nb->copy[i] = (unsigned char)(nb->id * 41 + i);
	free(old.copy);
	return as_check_contents("realloc altered another live block") && as_check_ckpt_size();
}

static int as_write(int j, unsigned salt)
{
	if(j >= SHD.n)
		return 1;
	as_tr("W#%d ", SHD.b[j].id);
	as_fill(&SHD.b[j], salt);
	return 1;
}

/* canonical key of the allocator state: the trees of all arenas in address order, and the order in which allocations try them */
static uint64_t as_state_key(void)
{
	uint64_t h = 5381;
	struct mm_state *m = &as_lp.mm_state;
	for(array_count_t i = 0; i < array_count(m->buddies); ++i) {
		struct buddy_state *b = array_get_at(m->buddies, i);
		h = h * 1099511628211ULL + (uint64_t)(b - as_pool) + 1;
		for(unsigned k = 0; k < sizeof(b->longest) - 1; ++k)
			h = (h ^ b->longest[k]) * 1099511628211ULL;
	}
#ifdef VERIF_HAVE_BY_AGE
	for(array_count_t i = 0; i < array_count(m->buddies_by_age); ++i)
		h = h * 1099511628211ULL + (uint64_t)(array_get_at(m->buddies_by_age, i) - as_pool) + 17;
#endif
	return h;
}
#endif
