/* s_alloc - C12: the real rollbackable allocator (mm/buddy/{multi,buddy,ckpt}.c) driven with
 *  (bfs)  every operation from every reachable state of 1..A scaled-down arenas (complete reachable
 *         state space, breadth first, states keyed by the allocation trees in address order), and
 *  (dfs)  every operation sequence up to a depth on whatever arena constants were compiled in
 *         (production constants in the registered check), checkpoints/restores interleaved,
 * against the shadow model of ashadow.h. */
#include "ashadow.h"

enum { OP_M, OP_C, OP_F, OP_R, OP_K, OP_X };
struct op {
	uint8_t kind, j;
	uint8_t si; /* index into sizes[] */
};
static size_t sizes[24];
static int nsizes;

/* ---- checkpoint bookkeeping for dfs mode ---- */
#define MAXCK 8
static struct as_shadow cks[MAXCK];
static unsigned ckref[MAXCK];
static int nck;
static unsigned opcount;

static void shadow_free(struct as_shadow *s)
{
	for(int i = 0; i < s->n; ++i)
		free(s->b[i].copy);
	s->n = 0;
}

static void shadow_copy(struct as_shadow *d, const struct as_shadow *s)
{
	*d = *s;
	for(int i = 0; i < s->n; ++i) {
		d->b[i].copy = malloc(s->b[i].req);
		memcpy(d->b[i].copy, s->b[i].copy, s->b[i].req);
	}
}

static void all_reset(void)
{
	for(int i = 0; i < nck; ++i)
		shadow_free(&cks[i]);
	nck = 0;
	opcount = 0;
	as_reset();
}

static int apply(struct op o)
{
	opcount++;
	switch(o.kind) {
		case OP_M:
			return as_malloc(sizes[o.si], 0);
		case OP_C:
			return as_malloc(sizes[o.si], 1);
		case OP_F:
			return as_free(o.j);
		case OP_R:
			return as_realloc(o.j, sizes[o.si]);
		case OP_K:
			if(nck >= MAXCK)
				return 1;
			as_tr("K ");
			model_allocator_checkpoint_take(&as_lp.mm_state, opcount);
			ckref[nck] = opcount;
			shadow_copy(&cks[nck++], &SHD);
			return 1;
		case OP_X: {
			if(!nck)
				return 1;
			int c = o.j ? nck - 1 : 0; /* newest or oldest checkpoint */
			as_tr("X%d ", c);
			array_count_t r = model_allocator_checkpoint_restore(&as_lp.mm_state, ckref[c]);
			if(r != ckref[c]) {
				sx_violation("restore picked the wrong checkpoint", "asked %u got %u; ops: %s", ckref[c], (unsigned)r, as_trace);
				return 0;
			}
			shadow_free(&SHD);
			shadow_copy(&SHD, &cks[c]);
			for(int i = c + 1; i < nck; ++i)
				shadow_free(&cks[i]);
			nck = c + 1;
			for(int i = 0; i < SHD.n; ++i)
				if(!as_in_arena(SHD.b[i].p, SHD.b[i].req)) {
					sx_violation("block live at the checkpoint is outside allocator memory after restore", "ops: %s", as_trace);
					return 0;
				}
			return as_check_contents("restore did not bring back the checkpointed content") && as_check_ckpt_size();
		}
	}
	return 1;
}

/* enumerate the operations enabled in the current (shadow) state */
static int enabled_ops(struct op *out, int with_ckpt)
{
	int n = 0;
	for(int s = 0; s < nsizes; ++s)
		out[n++] = (struct op){OP_M, 0, (uint8_t)s};
	for(int s = 0; s < nsizes; ++s)
		if(sizes[s] && sizes[s] <= ARENA_SZ)
			out[n++] = (struct op){OP_C, 0, (uint8_t)s};
	for(int j = 0; j < SHD.n; ++j) {
		out[n++] = (struct op){OP_F, (uint8_t)j, 0};
		for(int s = 0; s < nsizes; ++s)
			out[n++] = (struct op){OP_R, (uint8_t)j, (uint8_t)s};
	}
	if(with_ckpt) {
		out[n++] = (struct op){OP_K, 0, 0};
		if(nck) {
			out[n++] = (struct op){OP_X, 1, 0};
			if(nck > 1)
				out[n++] = (struct op){OP_X, 0, 0};
		}
	}
	return n;
}

/* ---------------------------------------------------------------- bfs over the complete state space */
#define HMAX 40
struct hist {
	uint8_t n;
	struct op o[HMAX];
};

static uint64_t *seen;
static uint64_t seen_mask, seen_n;
static int seen_add(uint64_t k)
{
	if(!k)
		k = 1;
	uint64_t i = (k * 0x9e3779b97f4a7c15ULL >> 17) & seen_mask;
	while(seen[i]) {
		if(seen[i] == k)
			return 0;
		i = (i + 1) & seen_mask;
	}
	seen[i] = k;
	seen_n++;
	return 1;
}

static int replay_hist(const struct hist *h)
{
	if((sx_evals & 255) == 0)
		sx_watchdog("s_alloc", as_trace, 20);
	all_reset();
	for(int i = 0; i < h->n; ++i)
		if(!apply(h->o[i]))
			return 0;
	return 1;
}

/* snapshot of the complete allocator + shadow state (bfs mode has no checkpoints): the pool slots are plain
 * memory, the arena list is at most NSLOT pointers */
struct snap {
	struct buddy_state pool[NSLOT];
	struct buddy_state *items[NSLOT], *by_age[NSLOT];
	unsigned count;
	uint_fast32_t full;
	int slot_used[NSLOT], created, next_id;
	struct as_shadow sh;
	char trace[sizeof as_trace];
};

static void snap_take(struct snap *s)
{
	memcpy(s->pool, as_pool, sizeof as_pool);
	s->count = array_count(as_lp.mm_state.buddies);
	memcpy(s->items, array_items(as_lp.mm_state.buddies), s->count * sizeof(void *));
#ifdef VERIF_HAVE_BY_AGE
	if(array_count(as_lp.mm_state.buddies_by_age) != s->count)
		sx_violation("the two arena lists of an LP differ in length", "%u by address, %u by age; ops: %s", s->count,
		    (unsigned)array_count(as_lp.mm_state.buddies_by_age), as_trace);
	memcpy(s->by_age, array_items(as_lp.mm_state.buddies_by_age), s->count * sizeof(void *));
#endif
	s->full = as_lp.mm_state.full_ckpt_size;
	memcpy(s->slot_used, as_slot_used, sizeof as_slot_used);
	s->created = as_created;
	s->next_id = as_next_id;
	shadow_copy(&s->sh, &SHD);
	memcpy(s->trace, as_trace, sizeof as_trace);
}

static void snap_restore(const struct snap *s)
{
	memcpy(as_pool, s->pool, sizeof as_pool);
	if(array_capacity(as_lp.mm_state.buddies) < NSLOT + 2)
		array_reserve(as_lp.mm_state.buddies, NSLOT + 2);
	array_count(as_lp.mm_state.buddies) = s->count;
	memcpy(array_items(as_lp.mm_state.buddies), s->items, s->count * sizeof(void *));
#ifdef VERIF_HAVE_BY_AGE
	if(array_capacity(as_lp.mm_state.buddies_by_age) < NSLOT + 2)
		array_reserve(as_lp.mm_state.buddies_by_age, NSLOT + 2);
	array_count(as_lp.mm_state.buddies_by_age) = s->count;
	memcpy(array_items(as_lp.mm_state.buddies_by_age), s->by_age, s->count * sizeof(void *));
#endif
	as_lp.mm_state.full_ckpt_size = s->full;
	memcpy(as_slot_used, s->slot_used, sizeof as_slot_used);
	as_created = s->created;
	as_next_id = s->next_id;
	as_refused = 0;
	shadow_free(&SHD);
	shadow_copy(&SHD, &s->sh);
	memcpy(as_trace, s->trace, sizeof as_trace);
}

static int bfs(int max_arenas)
{
	as_max_arenas = max_arenas;
	seen_mask = (1u << 24) - 1;
	seen = calloc(seen_mask + 1, 8);
	size_t qcap = 1 << 16, qh = 0, qt = 0;
	struct hist *q = malloc(qcap * sizeof *q);
	q[qt++] = (struct hist){0};
	all_reset();
	seen_add(as_state_key());
	int complete = 1;
	unsigned maxdepth = 0;
	while(qh < qt && !sx_stop()) {
		struct hist h = q[qh++];
		if(!replay_hist(&h))
			continue;
		struct op ops[600];
		int n = enabled_ops(ops, 0);
		static struct snap sn;
		snap_take(&sn);
		for(int k = 0; k < n; ++k) {
			if(k)
				snap_restore(&sn);
			sx_evals++;
			sx_transitions++;
			int ok = apply(ops[k]);
			if(as_refused)
				continue; /* would need more arenas than this instance allows */
			if(!ok)
				continue;
			if(array_count(as_lp.mm_state.buddies) > 1 || SHD.n > 1)
				sx_nontrivial++;
			if(seen_add(as_state_key())) {
				if(h.n + 1 >= HMAX) {
					complete = 0;
					continue;
				}
				if(qt == qcap) {
					qcap *= 2;
					q = realloc(q, qcap * sizeof *q);
				}
				q[qt] = h;
				q[qt].o[h.n] = ops[k];
				q[qt].n = h.n + 1;
				if(q[qt].n > maxdepth)
					maxdepth = q[qt].n;
				qt++;
				if(seen_n == 3 || seen_n == 200 || seen_n == 5000)
					sx_sample("state #%llu reached by: %s", (unsigned long long)seen_n, as_trace);
			}
		}
		shadow_free(&sn.sh);
	}
	sx_states = seen_n;
	free(q);
	free(seen);
	return complete;
}

/* ---------------------------------------------------------------- dfs: all sequences up to a depth */
static unsigned shard_i, shard_n = 1;

static void dfs(struct hist *h, int depth)
{
	if(sx_stop() || !replay_hist(h))
		return;
	if(h->n == depth)
		return;
	struct op ops[600];
	int n = enabled_ops(ops, 1);
	for(int k = 0; k < n; ++k) {
		if(h->n == 0 && (unsigned)k % shard_n != shard_i)
			continue;
		replay_hist(h);
		sx_evals++;
		sx_transitions++;
		int ok = apply(ops[k]);
		if(as_refused || !ok)
			continue;
		if(SHD.n > 1 || nck)
			sx_nontrivial++;
		if(sx_evals == 5 || sx_evals == 3000 || sx_evals == 200000)
			sx_sample("sequence: %s", as_trace);
		h->o[h->n] = ops[k];
		h->n++;
		dfs(h, depth);
		h->n--;
	}
}

int main(int argc, char **argv)
{
	const char *mode = argc > 1 ? argv[1] : "bfs";
	sx_begin();
	int complete = 1;
	char extra[300];
	if(!strcmp(mode, "bfs")) {
		int arenas = argc > 2 ? atoi(argv[2]) : 2;
		int perm = argc > 3 ? atoi(argv[3]) : 0;
		/* arena placement: perm indexes the permutations of the first 3 slots */
		static const int perms[6][3] = {{0, 1, 2}, {2, 1, 0}, {1, 0, 2}, {1, 2, 0}, {0, 2, 1}, {2, 0, 1}};
		for(int i = 0; i < 3; ++i)
			as_slot_order[i] = perms[perm % 6][i];
		/* every order exactly, every order via a request that must be rounded up, zero and over-size */
		sizes[nsizes++] = 0;
		sizes[nsizes++] = 1;
		for(size_t s = BLK_SZ; s <= ARENA_SZ; s <<= 1) {
			sizes[nsizes++] = s;
			if(s < ARENA_SZ)
				sizes[nsizes++] = s + 1;
		}
		sizes[nsizes++] = ARENA_SZ + 1;
		complete = bfs(arenas);
		snprintf(extra, sizeof extra, "\"mode\": \"bfs\", \"arena_bytes\": %u, \"block_bytes\": %u, \"max_arenas\": %d, \"placement\": %d",
		    ARENA_SZ, BLK_SZ, arenas, perm);
	} else {
		int depth = argc > 2 ? atoi(argv[2]) : 3;
		int alpha = argc > 3 ? atoi(argv[3]) : 0;
		shard_i = argc > 4 ? (unsigned)atoi(argv[4]) : 0;
		shard_n = argc > 5 ? (unsigned)atoi(argv[5]) : 1;
		int perm = argc > 6 ? atoi(argv[6]) : 0;
		static const int perms[6][3] = {{0, 1, 2}, {2, 1, 0}, {1, 0, 2}, {1, 2, 0}, {0, 2, 1}, {2, 0, 1}};
		for(int i = 0; i < 3; ++i)
			as_slot_order[i] = perms[perm % 6][i];
		as_max_arenas = argc > 7 ? atoi(argv[7]) : NSLOT;
		if(alpha == 0) {
			static const size_t a[] = {0, 1, BLK_SZ - 1, BLK_SZ, BLK_SZ + 1, ARENA_SZ / 16, ARENA_SZ / 2, ARENA_SZ / 2 + 1, ARENA_SZ,
			    ARENA_SZ + 1, ((size_t)1 << 63) + 1};
			for(unsigned i = 0; i < sizeof a / sizeof *a; ++i)
				sizes[nsizes++] = a[i];
		} else {
			static const size_t a[] = {0, 1, BLK_SZ + 1, ARENA_SZ / 2, ARENA_SZ / 2 + 1, ARENA_SZ, ARENA_SZ + 1};
			if(alpha == 2) { /* growth-oriented: only requests that fill arenas quickly */
				sizes[nsizes++] = ARENA_SZ / 2;
				sizes[nsizes++] = ARENA_SZ;
				sizes[nsizes++] = 1;
			} else
			for(unsigned i = 0; i < sizeof a / sizeof *a; ++i)
				sizes[nsizes++] = a[i];
		}
		struct hist h = {0};
		dfs(&h, depth);
		snprintf(extra, sizeof extra, "\"mode\": \"dfs\", \"arena_bytes\": %u, \"block_bytes\": %u, \"depth\": %d, \"shard\": \"%u/%u\"",
		    ARENA_SZ, BLK_SZ, depth, shard_i, shard_n);
	}
	return sx_report("s_alloc", complete, extra);
}
