/* h_topo - C19, concurrent use: two LPs on two scheduler threads call GetReceiver(..., DIRECTION_RANDOM) on one shared
 * topology; every interleaving of the calls (call granularity, all schedules up to the preemption bound) must give each
 * LP exactly the answers it gets alone with the same generator states, and each LP's generator must end in the state it
 * reaches alone. */
#include "../engine/rsched.h"
#include <ROOT-Sim.h>
#include <core/core.h>
#include <lib/random/random.h>
#include <lp/lp.h>
#include <log/log.h>
#include <string.h>

struct simulation_configuration global_config;
__thread struct lp_ctx *current_lp;
struct lp_ctx *lps;
void vlogger(enum log_level level, char *file, unsigned line, const char *fmt, ...) { (void)level, (void)file, (void)line, (void)fmt; }

#define NCALL 4
static struct topology *topo;
static struct lp_ctx LP[2];
static struct rng_ctx RNG[2], RNG0[2], RNG_END[2];
static lp_id_t expect[2][NCALL], src[2];
static int geometry = TOPOLOGY_SQUARE;
enum { C_CALLS };

static void *worker(void *arg)
{
	int id = (int)(long)arg;
	rs_set_role("topology-user");
	for(int k = 0; k < NCALL; ++k) {
		rs_point("GetReceiver");
		current_lp = &LP[id];
		lp_id_t r = GetReceiver(src[id], topo, DIRECTION_RANDOM);
		rs_count(C_CALLS, 1);
		if(r != expect[id][k])
			rs_fail("C19 DIRECTION_RANDOM depends on another thread's calls: LP %d call %d returned %llu, alone it returns %llu", id, k,
			    (unsigned long long)r, (unsigned long long)expect[id][k]);
	}
	if(memcmp(&RNG[id], &RNG_END[id], sizeof RNG[id]))
		rs_fail("C19 LP %d's generator ended in a different state than when it runs alone", id);
	return NULL;
}

static void body(void)
{
	topo = geometry == TOPOLOGY_HEXAGON ? InitializeTopology(TOPOLOGY_HEXAGON, 3, 3) :
	       geometry == TOPOLOGY_TORUS   ? InitializeTopology(TOPOLOGY_TORUS, 3, 3) :
					      InitializeTopology(TOPOLOGY_SQUARE, 3, 3);
	src[0] = 4;
	src[1] = 0;
	for(int id = 0; id < 2; ++id) {
		LP[id].rng_ctx = &RNG[id];
		global_config.prng_seed = 99 + (uint64_t)id;
		random_lib_lp_init((lp_id_t)id, &RNG0[id]);
		/* the answers each LP gets alone */
		RNG[id] = RNG0[id];
		current_lp = &LP[id];
		for(int k = 0; k < NCALL; ++k)
			expect[id][k] = GetReceiver(src[id], topo, DIRECTION_RANDOM);
		RNG_END[id] = RNG[id];
		RNG[id] = RNG0[id];
	}
	int a = rs_thread_create(worker, (void *)0L), b = rs_thread_create(worker, (void *)1L);
	rs_thread_join(a);
	rs_thread_join(b);
	ReleaseTopology(topo);
}

static void configure(int argc, char **argv)
{
	(void)argc, (void)argv;
	geometry = (int)rs_param_int("g", TOPOLOGY_SQUARE);
}

static const struct rs_harness H = {.name = "h_topo", .configure = configure, .body = body, .counter_names = {[C_CALLS] = "calls"}};

int main(int argc, char **argv)
{
	return rs_main(argc, argv, &H);
}
