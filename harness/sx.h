/* sx.h - tiny helpers shared by the sequential explicit-state enumerators (seqx):
 * violation recording with de-duplicated signatures, counters, JSON report on stdout. */
#ifndef SX_H
#define SX_H
#include <stdarg.h>
#include <stdint.h>
#include <stdio.h>
#include <stdlib.h>
#include <string.h>
#include <time.h>

#define SX_MAXV 64
struct sx_viol {
	char sig[400];
	char detail[1200];
	uint64_t count;
};
static struct sx_viol sx_v[SX_MAXV];
static int sx_nv;
static uint64_t sx_viol_total;
static uint64_t sx_evals, sx_nontrivial, sx_states, sx_transitions;
static char sx_samples[6][600];
static int sx_nsamples;
static struct timespec sx_t0;

static double sx_deadline = 0;
static inline void sx_begin(void)
{
	clock_gettime(CLOCK_MONOTONIC, &sx_t0);
	const char *d = getenv("SX_DEADLINE");
	sx_deadline = d ? atof(d) : 0;
}

static inline double sx_elapsed(void)
{
	struct timespec t;
	clock_gettime(CLOCK_MONOTONIC, &t);
	return (double)(t.tv_sec - sx_t0.tv_sec) + (double)(t.tv_nsec - sx_t0.tv_nsec) * 1e-9;
}

static int sx_deadline_hit;
/* should the enumeration stop? (enough violations to report, or the deadline passed) */
static inline int sx_stop(void)
{
	if(sx_viol_total >= 200)
		return 1;
	if(sx_deadline > 0 && (sx_evals & 1023) == 0 && sx_elapsed() > sx_deadline)
		sx_deadline_hit = 1;
	return sx_deadline_hit;
}

/* record a violation: sig identifies the failing case class, detail is the replayable case */
static inline void sx_violation(const char *sig, const char *fmt, ...)
{
	sx_viol_total++;
	for(int i = 0; i < sx_nv; ++i)
		if(!strcmp(sx_v[i].sig, sig)) {
			sx_v[i].count++;
			return;
		}
	if(sx_nv >= SX_MAXV)
		return;
	struct sx_viol *v = &sx_v[sx_nv++];
	snprintf(v->sig, sizeof v->sig, "%s", sig);
	va_list ap;
	va_start(ap, fmt);
	vsnprintf(v->detail, sizeof v->detail, fmt, ap);
	va_end(ap);
	v->count = 1;
}

/* watchdog: a hang inside the code under test becomes a reported violation, not a stuck check */
#include <signal.h>
#include <unistd.h>
static const char *sx_wd_name = "seqx";
static const char *sx_wd_ctx = "";
static inline int sx_report(const char *name, int exhaustive, const char *extra);
static void sx_wd_fire(int sig)
{
	(void)sig;
	sx_violation("operation did not return (hang) within the watchdog limit", "last context: %.900s", sx_wd_ctx);
	sx_report(sx_wd_name, 0, NULL);
	fflush(stdout);
	_exit(1);
}
static unsigned sx_wd_secs;
static inline void sx_watchdog(const char *name, const char *ctx, unsigned secs)
{
	sx_wd_name = name;
	sx_wd_ctx = ctx;
	sx_wd_secs = secs;
	signal(SIGALRM, sx_wd_fire);
	alarm(secs);
}
/* the watchdog limits ONE operation of the code under test, not the enumeration: enumerators call this as they go */
static inline void sx_tick(void)
{
	if(sx_wd_secs && (sx_evals & 63) == 0)
		alarm(sx_wd_secs);
}

static inline void sx_sample(const char *fmt, ...)
{
	if(sx_nsamples >= 6)
		return;
	va_list ap;
	va_start(ap, fmt);
	vsnprintf(sx_samples[sx_nsamples++], 600, fmt, ap);
	va_end(ap);
}

static inline void sx_json_str(FILE *f, const char *s)
{
	fputc('"', f);
	for(; *s; ++s) {
		unsigned char c = (unsigned char)*s;
		if(c == '"' || c == '\\')
			fprintf(f, "\\%c", c);
		else if(c == '\n')
			fputs("\\n", f);
		else if(c < 32 || c > 126)
			fprintf(f, "\\u%04x", c);
		else
			fputc(c, f);
	}
	fputc('"', f);
}

/* extra: a JSON fragment ("\"k\": v, ...") or NULL */
static inline int sx_report(const char *name, int exhaustive, const char *extra)
{
	FILE *f = stdout;
	fprintf(f, "{\"harness\": \"%s\", \"evaluations\": %llu, \"distinct_nontrivial\": %llu, \"states\": %llu, \"transitions\": %llu, "
		   "\"exhaustive\": %s, \"deadline_hit\": %s, \"violations_total\": %llu, \"wall_s\": %.3f",
	    name, (unsigned long long)sx_evals, (unsigned long long)sx_nontrivial, (unsigned long long)sx_states,
	    (unsigned long long)sx_transitions, (exhaustive && !sx_deadline_hit && sx_viol_total < 200) ? "true" : "false",
	    sx_deadline_hit ? "true" : "false", (unsigned long long)sx_viol_total, sx_elapsed());
	if(extra && *extra)
		fprintf(f, ", %s", extra);
	fprintf(f, ", \"samples\": [");
	for(int i = 0; i < sx_nsamples; ++i) {
		if(i)
			fputc(',', f);
		sx_json_str(f, sx_samples[i]);
	}
	fprintf(f, "], \"violations\": [");
	for(int i = 0; i < sx_nv; ++i) {
		if(i)
			fputc(',', f);
		fprintf(f, "{\"signature\": ");
		sx_json_str(f, sx_v[i].sig);
		fprintf(f, ", \"detail\": ");
		sx_json_str(f, sx_v[i].detail);
		fprintf(f, ", \"count\": %llu}", (unsigned long long)sx_v[i].count);
	}
	fprintf(f, "]}\n");
	return sx_nv ? 1 : 0;
}
#endif
