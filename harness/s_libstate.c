/* s_libstate - C09 (and the random part of C19): the model library keeps no state outside the LP.
 *
 * lib/random/random.c, lib/random/xxtea.c and lib/topology/topology.c are compiled with -fsanitize=thread ONLY to get a
 * call-back at every memory access they make; the sanitizer run time is not linked, the __tsan_* entry points are defined
 * here.  A library access to memory that is neither the library's own stack frames, nor the calling LP's generator, nor the
 * topology object passed in, nor a constant, is an access to state hidden in the library ("hoisted" scratch buffers, caches
 * in static or thread-local storage).
 *
 * Enumeration: for every ordered pair (F, G) of library calls (argument variants included), LP 0 makes three calls of F -
 * its reference stream - and then again with one complete call of G by LP 1 injected
 *   (a) between any two of its calls (what two LPs hosted by one worker thread do), and
 *   (b) at every hidden-state access inside its calls, which is exactly what another worker thread running G between two
 *       instructions of F does (the injected call runs to completion: one preemption).
 * Oracle: LP 0's three results and its generator state afterwards are those of the reference stream, and LP 1's results are
 * those of its own stand-alone stream.  On a library without hidden state there is no injection point of kind (b) at all,
 * which the report shows as hidden_state_accesses = 0. */
#include "sx.h"
#include <ROOT-Sim.h>
#include <core/core.h>
#include <lib/random/random.h>
#include <lib/random/xoroshiro.h>
#include <lp/lp.h>
#include <log/log.h>
#include <math.h>

struct simulation_configuration global_config;
__thread struct lp_ctx *current_lp;
struct lp_ctx *lps;
void vlogger(enum log_level level, char *file, unsigned line, const char *fmt, ...)
{
	(void)level, (void)file, (void)line, (void)fmt;
}

static struct lp_ctx LP[2];
static struct rng_ctx RNG[2];
static struct topology *TOPO[3];
static size_t topo_size[3];

/* ---- the calls ---- */
struct call {
	const char *name;
	int kind, a, b;
	double x;
};
enum { K_U64, K_RANDOM, K_POISSON, K_NORMAL, K_RANGE, K_RANGENU, K_GAMMA, K_ZIPF, K_RECV };
static const struct call CALLS[] = {
    {"RandomU64()", K_U64, 0, 0, 0}, {"Random()", K_RANDOM, 0, 0, 0}, {"Poisson()", K_POISSON, 0, 0, 0}, {"Normal()", K_NORMAL, 0, 0, 0},
    {"RandomRange(3,40)", K_RANGE, 3, 40, 0}, {"RandomRange(-5,5)", K_RANGE, -5, 5, 0}, {"RandomRangeNonUniform(3,1,9)", K_RANGENU, 1, 9, 3},
    {"Gamma(3)", K_GAMMA, 3, 0, 0}, {"Gamma(7)", K_GAMMA, 7, 0, 0}, {"Zipf(1.5,50)", K_ZIPF, 50, 0, 1.5}, {"Zipf(1.2,20)", K_ZIPF, 20, 0, 1.2},
    {"Zipf(2.5,7)", K_ZIPF, 7, 0, 2.5}, {"GetReceiver(4,square 3x3,RANDOM)", K_RECV, 0, 4, 0}, {"GetReceiver(1,hexagon 3x3,RANDOM)", K_RECV, 1, 1, 0},
    {"GetReceiver(2,graph,RANDOM)", K_RECV, 2, 2, 0},
};
#define NCALLS ((int)(sizeof CALLS / sizeof *CALLS))

static uint64_t do_call(const struct call *c)
{
	union {
		double d;
		uint64_t u;
	} r = {0};
	switch(c->kind) {
		case K_U64:
			return RandomU64();
		case K_RANDOM:
			r.d = Random();
			return r.u;
		case K_POISSON:
			r.d = Poisson();
			return r.u;
		case K_NORMAL:
			r.d = Normal();
			return r.u;
		case K_RANGE:
			return (uint64_t)(int64_t)RandomRange(c->a, c->b);
		case K_RANGENU:
			return (uint64_t)(int64_t)RandomRangeNonUniform((int)c->x, c->a, c->b);
		case K_GAMMA:
			r.d = Gamma((unsigned)c->a);
			return r.u;
		case K_ZIPF:
			return Zipf(c->x, (unsigned)c->a);
		default:
			return GetReceiver((lp_id_t)c->b, TOPO[c->a], DIRECTION_RANDOM);
	}
}

/* ---- access call-backs ---- */
static char *stack_top;
static int armed;          /* inside a library call made by LP 0 */
static int inject_at = -1; /* index of the hidden-state access at which LP 1's call is injected; -1: none */
static int n_hidden;       /* hidden-state accesses seen in the current run of LP 0's calls */
static uint64_t hidden_total;
static const struct call *inj_call;
static uint64_t inj_result;
static int inj_done;
static char hidden_where[160];

static int is_hidden(const void *p)
{
	const char *a = p;
	char here;
	if(a >= &here - 4096 && a < stack_top)
		return 0; /* a stack frame of the library or of its callers */
	if(a >= (const char *)RNG && a < (const char *)(RNG + 2))
		return 0;
	if(a >= (const char *)LP && a < (const char *)(LP + 2))
		return 0;
	if(a >= (const char *)&global_config && a < (const char *)(&global_config + 1))
		return 0;
	if(a >= (const char *)&current_lp && a < (const char *)(&current_lp + 1))
		return 0;
	for(int i = 0; i < 3; ++i)
		if(TOPO[i] && a >= (const char *)TOPO[i] && a < (const char *)TOPO[i] + topo_size[i])
			return 0;
	return 1;
}

static void injected_call(void)
{
	struct lp_ctx *save = current_lp;
	int a = armed;
	armed = 0;
	current_lp = &LP[1];
	inj_result = do_call(inj_call);
	inj_done = 1;
	current_lp = save;
	armed = a;
}

/* addresses (8-byte cells) the library wrote outside stack / LP context / arguments: its hidden state */
#define MAXW 256
static uintptr_t W[MAXW];
static int nW;
static int in_W(uintptr_t cell)
{
	for(int i = 0; i < nW; ++i)
		if(W[i] == cell)
			return 1;
	return 0;
}

static void on_access(const void *p, int is_write, void *pc)
{
	if(!armed || !is_hidden(p))
		return;
	/* below the data segment: code and constants */
	extern char __data_start;
	if((const char *)p < &__data_start)
		return;
	uintptr_t cell = (uintptr_t)p >> 3;
	if(is_write && !in_W(cell) && nW < MAXW) {
		W[nW++] = cell;
		if(!hidden_where[0])
			snprintf(hidden_where, sizeof hidden_where, "write of %p from code at %p", p, pc);
	}
	if(!in_W(cell))
		return; /* memory the library only ever reads (tables built by the caller) is not state */
	int k = n_hidden++;
	if(k == inject_at && !inj_done)
		injected_call();
}

#define RD(n) void __tsan_read##n(void *p) { on_access(p, 0, __builtin_return_address(0)); }
#define WR(n) void __tsan_write##n(void *p) { on_access(p, 1, __builtin_return_address(0)); }
RD(1) RD(2) RD(4) RD(8) RD(16) WR(1) WR(2) WR(4) WR(8) WR(16)
void __tsan_unaligned_read2(void *p) { on_access(p, 0, __builtin_return_address(0)); }
void __tsan_unaligned_read4(void *p) { on_access(p, 0, __builtin_return_address(0)); }
void __tsan_unaligned_read8(void *p) { on_access(p, 0, __builtin_return_address(0)); }
void __tsan_unaligned_read16(void *p) { on_access(p, 0, __builtin_return_address(0)); }
void __tsan_unaligned_write2(void *p) { on_access(p, 1, __builtin_return_address(0)); }
void __tsan_unaligned_write4(void *p) { on_access(p, 1, __builtin_return_address(0)); }
void __tsan_unaligned_write8(void *p) { on_access(p, 1, __builtin_return_address(0)); }
void __tsan_unaligned_write16(void *p) { on_access(p, 1, __builtin_return_address(0)); }
void __tsan_read_range(void *p, long n) { (void)n; on_access(p, 0, __builtin_return_address(0)); }
void __tsan_write_range(void *p, long n) { (void)n; on_access(p, 1, __builtin_return_address(0)); }
void __tsan_func_entry(void *pc) { (void)pc; }
void __tsan_func_exit(void) {}
void __tsan_init(void) {}
void __tsan_vptr_update(void **a, void *b) { (void)a, (void)b; }
void __tsan_vptr_read(void **a) { (void)a; }

/* ---- one run of LP 0's three calls ---- */
#define NC 3
struct outcome {
	uint64_t r[NC];
	struct rng_ctx after;
	int hidden;
};

static void seed_lps(void)
{
	memset(LP, 0, sizeof LP); /* whatever the library keeps in the LP context starts afresh too */
	LP[0].rng_ctx = &RNG[0];
	LP[1].rng_ctx = &RNG[1];
	global_config.prng_seed = 4242;
	random_lib_lp_init(0, &RNG[0]);
	random_lib_lp_init(1, &RNG[1]);
}

/* between: index of the call of LP 0 before which LP 1's call is injected (1..NC-1), or -1; at: hidden access index or -1 */
static void run0(const struct call *f, const struct call *g, int between, int at, struct outcome *o)
{
	seed_lps();
	n_hidden = 0;
	inject_at = at;
	inj_call = g;
	inj_done = 0;
	for(int i = 0; i < NC; ++i) {
		if(i == between) {
			inj_call = g;
			injected_call();
		}
		current_lp = &LP[0];
		armed = 1;
		o->r[i] = do_call(f);
		armed = 0;
	}
	o->after = RNG[0];
	o->hidden = n_hidden;
	inject_at = -1;
}

static uint64_t alone1(const struct call *g)
{
	seed_lps();
	current_lp = &LP[1];
	return do_call(g);
}

int main(int argc, char **argv)
{
	(void)argc, (void)argv;
	char top;
	stack_top = &top + 65536;
	sx_begin();
	static char ctx[300];
	sx_watchdog("s_libstate", ctx, 120);
	LP[0].rng_ctx = &RNG[0];
	LP[1].rng_ctx = &RNG[1];
	lps = LP;
	seed_lps();
	current_lp = &LP[0];
	TOPO[0] = InitializeTopology(TOPOLOGY_SQUARE, 3, 3);
	TOPO[1] = InitializeTopology(TOPOLOGY_HEXAGON, 3, 3);
	TOPO[2] = InitializeTopology(TOPOLOGY_GRAPH, 4);
	if(!TOPO[0] || !TOPO[1] || !TOPO[2]) {
		fprintf(stderr, "topology init failed\n");
		return 2;
	}
	AddTopologyLink(TOPO[2], 2, 0, 0.5);
	AddTopologyLink(TOPO[2], 2, 1, 0.25);
	AddTopologyLink(TOPO[2], 2, 3, 0.25);
	extern size_t malloc_usable_size(void *);
	for(int i = 0; i < 3; ++i)
		topo_size[i] = malloc_usable_size(TOPO[i]);

	for(int fi = 0; fi < NCALLS; ++fi) {
		const struct call *f = &CALLS[fi];
		struct outcome ref;
		hidden_where[0] = 0;
		nW = 0;
		run0(f, f, -1, -1, &ref); /* finds the hidden cells F writes */
		run0(f, f, -1, -1, &ref); /* counts every access to them */
		hidden_total += (uint64_t)ref.hidden;
		if(ref.hidden)
			sx_nontrivial++;
		for(int gi = 0; gi < NCALLS; ++gi) {
			const struct call *g = &CALLS[gi];
			uint64_t g_alone = alone1(g);
			/* (a) between calls, (b) at every hidden-state access */
			for(int mode = 0; mode < 2; ++mode) {
				int n = mode == 0 ? NC - 1 : ref.hidden;
				for(int k = 0; k < n; ++k) {
					struct outcome o;
					snprintf(ctx, sizeof ctx, "LP 0: 3 x %s; LP 1: %s %s %d", f->name, g->name,
					    mode == 0 ? "before call" : "at hidden-state access", mode == 0 ? k + 1 : k);
					run0(f, g, mode == 0 ? k + 1 : -1, mode == 0 ? -1 : k, &o);
					sx_evals++, sx_tick();
					sx_transitions++;
					if(!inj_done && mode == 1)
						continue; /* the access pattern changed before the injection point was reached */
					if(memcmp(o.r, ref.r, sizeof o.r) || memcmp(&o.after, &ref.after, sizeof o.after)) {
						char sig[200];
						snprintf(sig, sizeof sig, "%s: the stream of an LP depends on a call another LP makes %s", f->name,
						    mode == 0 ? "in between" : "at the same time (hidden state in the library)");
						sx_violation(sig, "%s; results %016llx %016llx %016llx, alone %016llx %016llx %016llx; first hidden access: %s", ctx,
						    (unsigned long long)o.r[0], (unsigned long long)o.r[1], (unsigned long long)o.r[2], (unsigned long long)ref.r[0],
						    (unsigned long long)ref.r[1], (unsigned long long)ref.r[2], hidden_where);
					}
					if(inj_result != g_alone) {
						char sig[200];
						snprintf(sig, sizeof sig, "%s: the result of a call depends on a call of another LP that it interrupted", g->name);
						sx_violation(sig, "%s; result %016llx, alone %016llx", ctx, (unsigned long long)inj_result, (unsigned long long)g_alone);
					}
				}
			}
		}
		if(fi == 3 || fi == 9 || fi == 12)
			sx_sample("LP 0: 3 x %s = %016llx %016llx %016llx; hidden-state accesses %d; LP 1's call injected before call 2/3 and at each of them",
			    f->name, (unsigned long long)ref.r[0], (unsigned long long)ref.r[1], (unsigned long long)ref.r[2], ref.hidden);
	}
	sx_states = (uint64_t)NCALLS * NCALLS;
	char extra[200];
	snprintf(extra, sizeof extra, "\"calls\": %d, \"hidden_state_accesses\": %llu", NCALLS, (unsigned long long)hidden_total);
	return sx_report("s_libstate", 1, extra);
}
