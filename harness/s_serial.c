/* s_serial - C10: the real serial runtime (serial/serial.c + heap.h + msg.h + init.c) running every
 * model of a list, compared dispatch by dispatch with the independent reference executor. One forked
 * child per (model, configuration). */
#include "sx.h"
#include "../model/vmodel.h"
#include "../model/refexec.h"
#include <ROOT-Sim.h>
#include <sys/mman.h>
#include <sys/time.h>
#include <sys/wait.h>
#include <unistd.h>

extern struct vm_env vm_core_env;

/* platform stubs (arch/thread.c is not compiled) */
int thread_start(void *a, void *b, void *c) { (void)a, (void)b, (void)c; return -1; }
int thread_affinity_set(unsigned long t, unsigned c) { (void)t, (void)c; return 0; }
int thread_wait(unsigned long t, void **r) { (void)t, (void)r; return 0; }
unsigned thread_cores_count(void) { return 64; }

/* virtual clock: one microsecond per read, so that gvt_period 0 ticks at every event and a large one never */
static uint64_t vclock = 1000000;
int gettimeofday(struct timeval *restrict tv, void *restrict tz)
{
	(void)tz;
	++vclock;
	tv->tv_sec = (time_t)(vclock / 1000000u);
	tv->tv_usec = (suseconds_t)(vclock % 1000000u);
	return 0;
}

#define MAXD 8192
struct disp {
	uint64_t lp;
	double t;
	unsigned type, size;
	uint64_t plh;
};
struct shared {
	int done, stop_called;
	unsigned n;
	unsigned stop_at_disp;
	struct disp d[MAXD];
	char err[400];
	int rc;
};
static struct shared *SHM;
static struct rx_result REF;

static void log_dispatch(lp_id_t me, simtime_t now, unsigned type, const void *pl, unsigned size, void *st)
{
	if(SHM->n < MAXD) {
		struct disp *d = &SHM->d[SHM->n++];
		d->lp = me;
		d->t = now;
		d->type = type;
		d->size = size;
		d->plh = vm_payload_hash(pl, size);
	}
	vm_process_event(me, now, type, pl, size, st);
}

static void ce_stop_mark(void)
{
	if(!SHM->stop_called) {
		SHM->stop_called = 1;
		SHM->stop_at_disp = SHM->n;
	}
	RootsimStop();
}

static char ctx[400];
static void viol(const char *sig, const char *fmt, ...)
{
	char d[500];
	va_list ap;
	va_start(ap, fmt);
	vsnprintf(d, sizeof d, fmt, ap);
	va_end(ap);
	sx_violation(sig, "%s: %s", ctx, d);
}

static void run_one(const char *model, unsigned gvt_period, double term_time)
{
	snprintf(ctx, sizeof ctx, "model '%s' gvt_period=%u termination_time=%g", model, gvt_period, term_time);
	if(vm_parse(model, &VM)) {
		fprintf(stderr, "bad model %s\n", model);
		exit(2);
	}
	sx_evals++;
	rx_run(&REF, 4242);
	if(REF.overflow)
		return; /* too many events for the log: not a model of the bounded grammar */
	memset(SHM, 0, offsetof(struct shared, d));
	pid_t pid = fork();
	if(pid == 0) {
		alarm(20);
		if(!freopen("/dev/null", "w", stderr)) {}
		vm_env = &vm_core_env;
		vm_core_env.stop = ce_stop_mark;
		struct simulation_configuration conf = {0};
		conf.lps = VM.n_lps;
		conf.n_threads = 1;
		conf.termination_time = term_time;
		conf.gvt_period = gvt_period;
		conf.log_level = LOG_SILENT;
		conf.prng_seed = 4242;
		conf.serial = true;
		conf.dispatcher = log_dispatch;
		conf.committed = vm_can_end;
		if(RootsimInit(&conf)) {
			SHM->rc = -100;
			_exit(0);
		}
		SHM->rc = RootsimRun();
		SHM->done = 1;
		_exit(0);
	}
	int st;
	waitpid(pid, &st, 0);
	if(!SHM->done) {
		if(WIFSIGNALED(st) && WTERMSIG(st) == SIGALRM)
			viol("serial run did not return within 20 s", "%u dispatches so far", SHM->n);
		else
			viol("serial run crashed", "wait status 0x%x after %u dispatches", st, SHM->n);
		return;
	}
	unsigned n = SHM->n, L = VM.n_lps;
	const struct disp *d = SHM->d;
	if(n >= MAXD)
		return;
	/* LP_INIT first for every LP, LP_FINI last for every LP */
	if(n < 2 * L) {
		viol("missing LP_INIT/LP_FINI dispatches", "%u dispatches for %u LPs", n, L);
		return;
	}
	for(unsigned i = 0; i < L; ++i) {
		if(d[i].type != LP_INIT || d[i].lp != i) {
			viol("LP_INIT not dispatched first for every LP", "dispatch %u is type %u for LP %llu", i, d[i].type,
			    (unsigned long long)d[i].lp);
			return;
		}
		if(d[n - L + i].type != LP_FINI) {
			viol("LP_FINI not dispatched last for every LP", "dispatch %u of %u is type %u", n - L + i, n, d[n - L + i].type);
			return;
		}
	}
	{
		unsigned seen = 0;
		for(unsigned i = 0; i < L; ++i)
			seen |= 1u << d[n - L + i].lp;
		if(seen != (1u << L) - 1) {
			viol("LP_FINI not dispatched exactly once per LP", "mask %x", seen);
			return;
		}
	}
	/* the events in between */
	unsigned k_lp[VM_MAXLP] = {0};
	bool pred_held[VM_MAXLP] = {0};
	double last_t = 0;
	unsigned delivered = 0;
	for(unsigned i = L; i < n - L; ++i) {
		if(d[i].type == LP_INIT || d[i].type == LP_FINI) {
			viol("LP_INIT/LP_FINI dispatched in the middle of the run", "dispatch %u", i);
			return;
		}
		if(d[i].t < last_t) {
			viol("dispatch timestamps decrease", "dispatch %u: t=%g after t=%g", i, d[i].t, last_t);
			return;
		}
		last_t = d[i].t;
		uint64_t lp = d[i].lp;
		unsigned k = k_lp[lp]++;
		if(k >= REF.per_lp_n[lp]) {
			viol("event dispatched that the reference execution never delivers (or delivered twice)", "LP %llu delivery #%u t=%g type=%u",
			    (unsigned long long)lp, k, d[i].t, d[i].type);
			return;
		}
		const struct rx_event *e = &REF.ev[REF.per_lp[lp][k]];
		if(e->t != d[i].t || e->type != d[i].type || e->size != d[i].size || e->plh != d[i].plh) {
			viol("per-LP dispatch sequence differs from the reference", "LP %llu delivery #%u: got (t=%g type=%u size=%u), reference (t=%g type=%u size=%u)",
			    (unsigned long long)lp, k, d[i].t, d[i].type, d[i].size, e->t, e->type, e->size);
			return;
		}
		if(e->pred_after)
			pred_held[lp] = true;
		delivered++;
	}
	/* exactly-once up to the stop point: everything the reference delivers strictly before the last dispatched timestamp
	 * has been dispatched */
	for(unsigned lp = 0; lp < L; ++lp)
		for(unsigned k = k_lp[lp]; k < REF.per_lp_n[lp]; ++k)
			if(REF.ev[REF.per_lp[lp][k]].t < last_t) {
				viol("event skipped: an undelivered event lies before the stop point", "LP %u delivery #%u t=%g, run stopped at t=%g", lp,
				    k, REF.ev[REF.per_lp[lp][k]].t, last_t);
				return;
			}
	/* the stop point: justified and not early */
	bool exhausted = delivered == REF.n;
	bool all_pred = true;
	for(unsigned lp = 0; lp < L; ++lp)
		all_pred &= pred_held[lp];
	bool time_up = delivered && last_t >= term_time;
	if(!exhausted && !all_pred && !time_up && !SHM->stop_called)
		viol("serial run stopped early", "%u of %u events delivered, last t=%g; no predicate/termination-time/stop reason", delivered,
		    REF.n, last_t);
	if(exhausted || all_pred)
		sx_nontrivial += (REF.n > 8);
	sx_transitions += n;
	if(sx_evals == 3 || sx_evals == 150 || sx_evals == 3000)
		sx_sample("%s: %u dispatches, reference delivers %u events, stop: %s", ctx, n, REF.n,
		    exhausted ? "queue empty" : all_pred ? "all predicates held" : time_up ? "termination time" : "RootsimStop");
}

int main(int argc, char **argv)
{
	if(argc < 2) {
		fprintf(stderr, "usage: s_serial <model-list-file> [shard n]\n");
		return 2;
	}
	unsigned shard = argc > 2 ? (unsigned)atoi(argv[2]) : 0, nshard = argc > 3 ? (unsigned)atoi(argv[3]) : 1;
	sx_begin();
	SHM = mmap(NULL, sizeof *SHM, PROT_READ | PROT_WRITE, MAP_SHARED | MAP_ANONYMOUS, -1, 0);
	FILE *f = fopen(argv[1], "r");
	if(!f)
		return 2;
	char line[256];
	unsigned idx = 0;
	while(fgets(line, sizeof line, f) && !sx_stop()) {
		line[strcspn(line, "\n")] = 0;
		if(!line[0] || line[0] == '#')
			continue;
		if(idx++ % nshard != shard)
			continue;
		/* every model under four configurations */
		run_one(line, 0, 0);
		run_one(line, 1000000000u, 0);
		run_one(line, 0, 3.0);
		run_one(line, 1000000000u, 3.0);
	}
	fclose(f);
	char extra[100];
	snprintf(extra, sizeof extra, "\"models\": %u", idx);
	return sx_report("s_serial", 1, extra);
}
