/* s_fossil - C13: the real fossil_on_gvt()/fossil_lp_collect() (gvt/fossil.c) and
 * model_allocator_fossil_lp_collect() (mm/buddy/multi.c) on a real lp_ctx whose processed-message
 * history is laid out exactly as lp/process.c lays it out (sent entries of an event, then the event,
 * checkpoint references = history length).  For every history (timestamps with ties, 0-2 sent entries
 * per event, local/remote), checkpoint interval, GVT value, following legal rollback target and second
 * GVT value: collect, check what was kept/freed/re-based, roll back (real restore + coast forward) and
 * compare with the shadow snapshot, collect again. */
#include "ashadow.h"
#include <gvt/fossil.h>
#include <mm/msg_allocator.h>

#define MAXN 8
#define MAXE 64
static struct lp_msg *freed[MAXE];
static int nfreed;
void msg_allocator_free(struct lp_msg *msg)
{
	if(nfreed < MAXE)
		freed[nfreed++] = msg;
}

struct ev {
	double t;
	int sent; /* bit0: a local sent entry, bit1: a remote sent entry */
	struct lp_msg *m, *sl, *sr;
	int pos; /* history length right after the event was pushed (original coordinates) */
};
static struct ev E[MAXN + 1];
static int N;
static struct as_shadow snapS[MAXN + 1]; /* state after event k (k = 0 is LP_INIT) */
static int snapNext[MAXN + 1];
static int ckpt_at[MAXN + 1]; /* was a checkpoint taken right after event k? */

static void shadow_free(struct as_shadow *s)
{
	for(int i = 0; i < s->n; ++i)
		free(s->b[i].copy);
	s->n = 0;
}
static void shadow_copy(struct as_shadow *d, const struct as_shadow *s)
{
	*d = *s;
	for(int i = 0; i < s->n; ++i) {
		d->b[i].copy = malloc(s->b[i].req);
		memcpy(d->b[i].copy, s->b[i].copy, s->b[i].req);
	}
}

/* what event k does to the LP state: a fixed little program that makes every position distinguishable */
static int event_ops(int k)
{
	as_pos = k;
	switch(k % 4) {
		case 0:
			return as_malloc(1 + (size_t)k, 0);
		case 1:
			return as_malloc(2 * BLK_SZ, 0) && as_write(0, (unsigned)k);
		case 2:
			return as_write(SHD.n - 1, (unsigned)k * 3) && (SHD.n > 2 ? as_free(1) : 1);
		default:
			return as_realloc(0, BLK_SZ * 3) && as_write(0, (unsigned)k + 9);
	}
}

static int state_is(int k, int minborn, const char *when)
{
	const struct as_shadow *s = &snapS[k];
	if(SHD.n != s->n) {
		sx_violation("rollback after fossil collection: live block set differs", "%s event %d; %s", when, k, as_trace);
		return 0;
	}
	for(int i = 0; i < s->n; ++i) {
		if(SHD.b[i].id != s->b[i].id || SHD.b[i].req != s->b[i].req || (s->b[i].born < minborn && SHD.b[i].p != s->b[i].p)) {
			sx_violation("rollback after fossil collection: live block set differs",
			    "%s event %d block %d: now #%d req %zu at %p born %d, first run #%d req %zu at %p born %d (minborn %d); %s", when, k, i,
			    SHD.b[i].id, SHD.b[i].req, (void *)SHD.b[i].p, SHD.b[i].born, s->b[i].id, s->b[i].req, (void *)s->b[i].p, s->b[i].born,
			    minborn, as_trace);
			return 0;
		}
		if(memcmp(SHD.b[i].p, s->b[i].copy, s->b[i].req)) {
			sx_violation("rollback after fossil collection: block content differs", "%s event %d block #%d; %s", when, k,
			    s->b[i].id, as_trace);
			return 0;
		}
	}
	return 1;
}

#define mark_remote(p) ((struct lp_msg *)(((uintptr_t)(p)) | 2U))
#define mark_sent(p) ((struct lp_msg *)(((uintptr_t)(p)) | 1U))

static int removed_total; /* entries truncated from the front so far */
static int base_event;    /* first event whose entry is still in the history */

static void build(unsigned c)
{
	as_reset();
	nfreed = 0;
	removed_total = 0;
	struct lp_ctx *lp = &as_lp;
	array_init(lp->p.p_msgs);
	lp->fossil_epoch = 0;
	unsigned rem = 0;
	for(int k = 0; k <= N; ++k) {
		if(!event_ops(k))
			return;
		if(E[k].sent & 1)
			array_push(lp->p.p_msgs, mark_sent(E[k].sl));
		if(E[k].sent & 2)
			array_push(lp->p.p_msgs, mark_remote(E[k].sr));
		array_push(lp->p.p_msgs, E[k].m);
		E[k].pos = (int)array_count(lp->p.p_msgs);
		shadow_free(&snapS[k]);
		shadow_copy(&snapS[k], &SHD);
		snapNext[k] = as_next_id;
		ckpt_at[k] = 0;
		if(k == 0 || ++rem >= c) {
			rem = 0;
			ckpt_at[k] = 1;
			model_allocator_checkpoint_take(&lp->mm_state, array_count(lp->p.p_msgs));
		}
	}
}

/* collect at gvt g with the real code, then check the C13 clauses; returns 0 on violation */
static int collect_and_check(double g, const char *label)
{
	struct lp_ctx *lp = &as_lp;
	char d[300];
	/* expectation: committed frontier = last event (still in history) with t < g */
	int F = -1;
	for(int k = 0; k <= N; ++k)
		if(E[k].pos > removed_total && E[k].t < g)
			F = k;
	array_count_t before_cnt = array_count(lp->p.p_msgs);
	int before_logs = (int)array_count(lp->mm_state.logs);
	nfreed = 0;
	fossil_on_gvt(g);
	fossil_lp_collect(lp);
	int removed = (int)(before_cnt - array_count(lp->p.p_msgs));
	snprintf(d, sizeof d, "%s gvt=%.1f removed=%d history=%u->%u checkpoints=%d->%d", label, g, removed, (unsigned)before_cnt,
	    (unsigned)array_count(lp->p.p_msgs), before_logs, (int)array_count(lp->mm_state.logs));
	as_tr("|%s ", d);
	if(array_count(lp->mm_state.logs) == 0) {
		sx_violation("no checkpoint kept", "%s; %s", d, as_trace);
		return 0;
	}
	/* kept history starts exactly at a kept checkpoint */
	if(removed > 0 && array_get_at(lp->mm_state.logs, 0).ref_i != 0) {
		sx_violation("kept history does not start at the oldest kept checkpoint", "first reference %u; %s",
		    (unsigned)array_get_at(lp->mm_state.logs, 0).ref_i, as_trace);
		return 0;
	}
	int new_removed_total = removed_total + removed;
	/* nothing at or above the GVT may have been dropped; what is dropped must lie before the frontier */
	for(int k = 0; k <= N; ++k)
		if(E[k].pos > removed_total && E[k].pos <= new_removed_total && E[k].t >= g) {
			sx_violation("event with timestamp >= GVT discarded", "event %d t=%.1f; %s", k, E[k].t, as_trace);
			return 0;
		}
	/* a checkpoint not after the committed frontier survives: the first kept checkpoint's original position must be
	 * <= position right after the frontier event */
	if(F >= 0 && new_removed_total > E[F].pos) {
		sx_violation("history truncated beyond the committed frontier", "frontier event %d at position %d, removed up to %d; %s",
		    F, E[F].pos, new_removed_total, as_trace);
		return 0;
	}
	/* references of the kept checkpoints = their position in the shortened history */
	{
		int li = 0;
		for(int k = 0; k <= N; ++k) {
			if(!ckpt_at[k] || E[k].pos < new_removed_total)
				continue;
			if(li >= (int)array_count(lp->mm_state.logs)) {
				sx_violation("a checkpoint that is still needed was discarded", "checkpoint after event %d; %s", k, as_trace);
				return 0;
			}
			array_count_t r = array_get_at(lp->mm_state.logs, li).ref_i;
			if((int)r != E[k].pos - new_removed_total) {
				sx_violation("checkpoint reference not re-based to the shortened history",
				    "checkpoint after event %d: reference %u, position in kept history %d; %s", k, (unsigned)r,
				    E[k].pos - new_removed_total, as_trace);
				return 0;
			}
			li++;
		}
		if(li != (int)array_count(lp->mm_state.logs)) {
			sx_violation("unexpected checkpoint kept", "%d kept, %d expected; %s", (int)array_count(lp->mm_state.logs), li,
			    as_trace);
			return 0;
		}
	}
	/* freed = exactly the dropped entries that are not local-sent */
	{
		int want = 0;
		for(int k = 0; k <= N; ++k) {
			int in_drop = E[k].pos > removed_total && E[k].pos <= new_removed_total;
			if(!in_drop)
				continue;
			struct lp_msg *exp[2] = {E[k].m, (E[k].sent & 2) ? E[k].sr : NULL};
			for(int x = 0; x < 2; ++x) {
				if(!exp[x])
					continue;
				want++;
				int f = 0;
				for(int i = 0; i < nfreed; ++i)
					f += freed[i] == exp[x];
				if(f != 1) {
					sx_violation("dropped history entry not released exactly once", "event %d entry %d released %d times; %s", k,
					    x, f, as_trace);
					return 0;
				}
			}
			if(E[k].sent & 1)
				for(int i = 0; i < nfreed; ++i)
					if(freed[i] == E[k].sl) {
						sx_violation("locally sent message released by the sender's fossil collection", "event %d; %s", k,
						    as_trace);
						return 0;
					}
		}
		if(want != nfreed) {
			sx_violation("fossil collection released entries it must keep", "released %d, dropped non-local entries %d; %s",
			    nfreed, want, as_trace);
			return 0;
		}
	}
	removed_total = new_removed_total;
	if(removed > 0 || F >= 0)
		sx_transitions++;
	return 1;
}

/* roll back to right after event k (which must still be in the history), as do_rollback/silent_execution do */
static int rollback_to_event(int k)
{
	struct lp_ctx *lp = &as_lp;
	array_count_t past_i = (array_count_t)(E[k].pos - removed_total);
	as_tr("|RB-after-event-%d(past_i=%u) ", k, (unsigned)past_i);
	array_count(lp->p.p_msgs) = past_i; /* send_anti_messages truncates the history */
	array_count_t last_i = model_allocator_checkpoint_restore(&lp->mm_state, past_i);
	/* which event does the restored checkpoint follow? */
	int r = -1;
	for(int e = 0; e <= N; ++e)
		if(E[e].pos - removed_total == (int)last_i)
			r = e;
	if(r < 0 || !ckpt_at[r] || r > k) {
		sx_violation("restore after fossil collection returned a reference that is no kept checkpoint",
		    "reference %u; %s", (unsigned)last_i, as_trace);
		return 0;
	}
	shadow_free(&SHD);
	shadow_copy(&SHD, &snapS[r]);
	as_next_id = snapNext[r];
	if(!state_is(r, 1 << 30, "restored checkpoint after"))
		return 0;
	/* coast forward over the history entries, skipping sent entries, like silent_execution() */
	while(last_i < past_i) {
		struct lp_msg *m = array_get_at(lp->p.p_msgs, last_i);
		while(is_msg_sent(m))
			m = array_get_at(lp->p.p_msgs, ++last_i);
		int e = -1;
		for(int x = 0; x <= N; ++x)
			if(E[x].m == m)
				e = x;
		if(e < 0) {
			sx_violation("history entry used for coast forward is not a processed event", "%s", as_trace);
			return 0;
		}
		as_tr("~e%d ", e);
		if(!event_ops(e))
			return 0;
		++last_i;
	}
	/* checkpoints after the restored one are gone */
	for(int e = r + 1; e <= N; ++e)
		ckpt_at[e] = 0;
	/* blocks born at events <= r existed at the restored checkpoint and must keep their address; blocks (re)allocated by the
	 * coast forward may land in an arena created after that checkpoint (same relaxation as s_ckpt, DESIGN.md section 4) */
	return state_is(k, r + 1, "rolled back to after");
}

static void scenario(unsigned c, double g, int q, double g2)
{
	sx_evals++;
	if((sx_evals & 255) == 0)
		sx_watchdog("s_fossil", as_trace, 20);
	build(c);
	as_tr("events:");
	for(int k = 0; k <= N; ++k)
		as_tr(" e%d(t=%.0f%s%s%s)", k, E[k].t, (E[k].sent & 1) ? ",L" : "", (E[k].sent & 2) ? ",R" : "", ckpt_at[k] ? ",ckpt" : "");
	as_tr(" interval=%u ", c);
	if(!collect_and_check(g, "collect#1"))
		return;
	if(q >= 0) {
		/* legal rollback: the straggler has timestamp >= g, so every event with t < g stays */
		if(E[q].pos < removed_total)
			return;
		for(int k = q + 1; k <= N; ++k)
			if(E[k].t < g)
				return; /* would undo a committed event: not a legal rollback */
		if(!rollback_to_event(q))
			return;
		sx_nontrivial++;
		/* events after q are gone now; forget them */
		for(int k = q + 1; k <= N; ++k)
			E[k].pos = -1;
	}
	if(g2 > g) {
		int saveN = N;
		if(q >= 0)
			N = q;
		int ok = collect_and_check(g2, "collect#2");
		if(ok && N >= 0 && E[N].pos >= removed_total) {
			/* and the newest remaining position is still reachable */
			rollback_to_event(N);
		}
		N = saveN;
	}
	if(sx_evals == 100 || sx_evals == 20000 || sx_evals == 900000)
		sx_sample("%s", as_trace);
}

static unsigned shard_i, shard_n = 1;

int main(int argc, char **argv)
{
	int maxn = argc > 1 ? atoi(argv[1]) : 4;
	shard_i = argc > 2 ? (unsigned)atoi(argv[2]) : 0;
	shard_n = argc > 3 ? (unsigned)atoi(argv[3]) : 1;
	unsigned maxc = argc > 4 ? (unsigned)atoi(argv[4]) : 4;
	as_max_arenas = 3;
	sx_begin();
	for(int k = 0; k <= MAXN; ++k) {
		E[k].m = calloc(1, sizeof(struct lp_msg));
		E[k].sl = calloc(1, sizeof(struct lp_msg));
		E[k].sr = calloc(1, sizeof(struct lp_msg));
	}
	unsigned long combo = 0;
	for(N = 1; N <= maxn && !sx_stop(); ++N)
		for(unsigned dtm = 0; dtm < (1u << N) && !sx_stop(); ++dtm)
			for(unsigned sp = 0; sp < (1u << (2 * N)) && !sx_stop(); ++sp) {
				if(combo++ % shard_n != shard_i)
					continue;
				E[0].t = 0;
				E[0].sent = (int)(sp & 1) * 3 & 3; /* init may also have sent something */
				double t = 0;
				for(int k = 1; k <= N; ++k) {
					t += (dtm >> (k - 1)) & 1;
					E[k].t = t;
					E[k].sent = (int)((sp >> (2 * (k - 1))) & 3);
				}
				for(int k = 0; k <= N; ++k) {
					E[k].m->dest_t = E[k].t;
					E[k].sl->dest_t = E[k].sr->dest_t = E[k].t + 1;
				}
				for(unsigned c = 1; c <= maxc; ++c)
					for(double g = 0.0; g <= t + 1.0; g += 0.5)
						for(int q = -1; q <= N; ++q)
							for(double g2 = g; g2 <= t + 1.5; g2 += 1.0) {
								scenario(c, g, q, g2);
								if(q < 0 && g2 > g + 1.5)
									break;
							}
			}
	char extra[200];
	snprintf(extra, sizeof extra, "\"max_events\": %d, \"max_interval\": %u, \"arena_bytes\": %u, \"shard\": \"%u/%u\"", maxn, maxc,
	    ARENA_SZ, shard_i, shard_n);
	return sx_report("s_fossil", 1, extra);
}
