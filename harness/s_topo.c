/* s_topo - C19: the topology library (lib/topology/topology.c) on every geometry x size x source x
 * direction, with the calling LP's generator set to chosen states for DIRECTION_RANDOM, plus
 * call sequences in which another LP calls in between and the caller's generator is rolled back. */
#include "sx.h"
#include <ROOT-Sim.h>
#include <core/core.h>
#include <lib/random/random.h>
#include <lp/lp.h>
#include <log/log.h>
#include <pthread.h>
#include "rngcraft.h"

struct simulation_configuration global_config;
__thread struct lp_ctx *current_lp;
struct lp_ctx *lps;
void vlogger(enum log_level level, char *file, unsigned line, const char *fmt, ...)
{
	(void)level, (void)file, (void)line, (void)fmt;
}

static struct lp_ctx LP[3];
static struct rng_ctx RNG[3];
static char ctx[400];

static const char *gname(int g)
{
	static const char *n[] = {"?", "hexagon", "square", "torus", "ring", "bidring", "star", "fcmesh", "graph"};
	return n[g];
}

static void viol(const char *what, const char *detail)
{
	sx_violation(what, "%s %s", ctx, detail);
}

/* a pool of generator states: the real seeding function over many (seed, lp) pairs, plus crafted boundary draws */
#define MAXS 6000
static struct rng_ctx S[MAXS];
static int NS;

static void states_init(int n)
{
	for(int i = 0; i < n && NS < MAXS; ++i) {
		global_config.prng_seed = 1000 + (uint64_t)i * 7919;
		random_lib_lp_init((lp_id_t)i, &S[NS]);
		/* warm up a little so that successive outputs are well mixed */
		for(int k = 0; k < 4; ++k)
			(void)random_u64(S[NS].state);
		NS++;
	}
	static const uint64_t edge[] = {0, 1, ~0ULL, 1ULL << 63, (1ULL << 63) - 1, 0xfffffffffffff800ULL, 1ULL << 32};
	for(unsigned i = 0; i < sizeof edge / sizeof *edge && NS < MAXS; ++i)
		for(unsigned j = 0; j < sizeof edge / sizeof *edge && NS < MAXS; ++j)
			craft(S[NS++].state, edge[i], edge[j], 0x9e3779b97f4a7c15ULL);
}

static lp_id_t call_random(int lp, struct topology *t, lp_id_t from, const struct rng_ctx *st)
{
	RNG[lp] = *st;
	current_lp = &LP[lp];
	return GetReceiver(from, t, DIRECTION_RANDOM);
}

/* expected CountDirections per the property text */
static lp_id_t expected_count(int g, struct topology *t, lp_id_t from, lp_id_t regions, unsigned links)
{
	switch(g) {
		case TOPOLOGY_HEXAGON:
		case TOPOLOGY_SQUARE:
		case TOPOLOGY_TORUS:
		case TOPOLOGY_RING:
		case TOPOLOGY_BIDRING: {
			lp_id_t c = 0;
			for(int d = 0; d < DIRECTION_RANDOM; ++d)
				c += GetReceiver(from, t, d) != INVALID_DIRECTION;
			return c;
		}
		case TOPOLOGY_STAR:
			return from == 0 ? regions - 1 : 1;
		case TOPOLOGY_FCMESH:
			return regions - 1;
		default:
			return links;
	}
}

static uint64_t perm_seen[720 / 64 + 1];
static int perm_count;

static void check_topology(int g, unsigned h, unsigned w, unsigned nregions, unsigned linkmask)
{
	struct topology *t;
	if(g <= TOPOLOGY_TORUS)
		t = InitializeTopology(g, h, w);
	else
		t = InitializeTopology(g, nregions);
	if(!t) {
		snprintf(ctx, sizeof ctx, "%s %ux%u/%u", gname(g), h, w, nregions);
		viol("topology could not be initialised", "");
		return;
	}
	lp_id_t regions = CountRegions(t);
	unsigned nlinks[8] = {0};
	if(g == TOPOLOGY_GRAPH) {
		/* linkmask bit (a*regions+b): link a->b with equal probabilities */
		unsigned out[8] = {0};
		for(unsigned a = 0; a < regions; ++a)
			for(unsigned b = 0; b < regions; ++b)
				if(linkmask >> (a * regions + b) & 1)
					out[a]++;
		for(unsigned a = 0; a < regions; ++a)
			for(unsigned b = 0; b < regions; ++b)
				if(linkmask >> (a * regions + b) & 1) {
					AddTopologyLink(t, a, b, 1.0 / out[a]);
					nlinks[a]++;
				}
	}
	for(lp_id_t from = 0; from < regions; ++from) {
		snprintf(ctx, sizeof ctx, "%s h=%u w=%u regions=%llu links=0x%x from=%llu:", gname(g), h, w, (unsigned long long)regions,
		    linkmask, (unsigned long long)from);
		sx_evals++, sx_tick();
		int any_fixed = 0;
		for(int d = 0; d < DIRECTION_RANDOM; ++d) {
			lp_id_t r = GetReceiver(from, t, d);
			if(r == INVALID_DIRECTION)
				continue;
			any_fixed = 1;
			char dd[80];
			snprintf(dd, sizeof dd, "direction %d -> %llu", d, (unsigned long long)r);
			if(r >= regions)
				viol("fixed direction returns a region outside the topology", dd);
			else if(!IsNeighbor(from, r, t))
				viol("fixed direction returns a region IsNeighbor does not confirm", dd);
		}
		lp_id_t cd = CountDirections(from, t), exp = expected_count(g, t, from, regions, nlinks[from < 8 ? from : 0]);
		if(cd != exp) {
			char dd[120];
			snprintf(dd, sizeof dd, "CountDirections=%llu, expected %llu", (unsigned long long)cd, (unsigned long long)exp);
			char sig[160];
			snprintf(sig, sizeof sig, "CountDirections disagrees with the valid directions (%s)", gname(g));
			viol(sig, dd);
		}
		/* does a neighbour exist at all? */
		int exists;
		if(g <= TOPOLOGY_BIDRING)
			exists = any_fixed;
		else if(g == TOPOLOGY_STAR)
			exists = from != 0 || regions > 1;
		else if(g == TOPOLOGY_FCMESH)
			exists = regions > 1;
		else
			exists = nlinks[from] > 0;
		/* DIRECTION_RANDOM over the pool of generator states; memo: same state => same answer, whatever happened between */
		int nst = (g <= TOPOLOGY_TORUS) ? NS : (NS < 400 ? NS : 400);
		for(int s = 0; s < nst; ++s) {
			lp_id_t r1 = call_random(0, t, from, &S[s]);
			sx_transitions++;
			char dd[160];
			if(r1 == INVALID_DIRECTION) {
				if(exists) {
					snprintf(dd, sizeof dd, "state #%d", s);
					viol("DIRECTION_RANDOM returns no neighbour although one exists", dd);
				}
			} else {
				snprintf(dd, sizeof dd, "state #%d -> %llu", s, (unsigned long long)r1);
				if(r1 >= regions) {
					char sig[120];
					snprintf(sig, sizeof sig, "DIRECTION_RANDOM returns a region outside the topology (%s)", gname(g));
					viol(sig, dd);
				} else if(!IsNeighbor(from, r1, t))
					viol("DIRECTION_RANDOM returns a region IsNeighbor does not confirm", dd);
			}
			/* another LP (other source, other state) calls in between, then the caller is rolled back and asks again */
			if((s & 3) == 0) {
				(void)call_random(1, t, (from + 1) % regions, &S[(s * 7 + 3) % NS]);
				lp_id_t r2 = call_random(0, t, from, &S[s]);
				sx_nontrivial++;
				if(r2 != r1) {
					snprintf(dd, sizeof dd, "state #%d: first answer %llu, after another LP's call and a rollback of the generator %llu",
					    s, (unsigned long long)r1, (unsigned long long)r2);
					char sig[160];
					snprintf(sig, sizeof sig, "DIRECTION_RANDOM is not a function of the caller's generator state (%s)", gname(g));
					viol(sig, dd);
				}
			}
		}
	}
	ReleaseTopology(t);
}

/* which permutation of the shuffle does a state produce?  Observed through the draws RandomRange makes. */
static void shuffle_coverage(void)
{
	for(int s = 0; s < NS; ++s) {
		RNG[0] = S[s];
		current_lp = &LP[0];
		int idx = 0, mul = 1;
		for(int i = 0; i < 5; ++i) {
			int j = RandomRange(i, 5) - i; /* 0 .. 5-i */
			idx += j * mul;
			mul *= 6 - i;
		}
		if(!(perm_seen[idx / 64] >> (idx % 64) & 1)) {
			perm_seen[idx / 64] |= 1ULL << (idx % 64);
			perm_count++;
		}
	}
}

/* two threads asking concurrently, each with its own LP: the answers must be those of the sequential memo */
static struct topology *mt_topo;
static lp_id_t mt_ans[2][64];
static void *mt_worker(void *arg)
{
	int id = (int)(long)arg;
	for(int k = 0; k < 64; ++k) {
		RNG[id] = S[(k * 13 + id * 5) % NS];
		current_lp = &LP[id];
		mt_ans[id][k] = GetReceiver((lp_id_t)(4 + id), mt_topo, DIRECTION_RANDOM);
	}
	return NULL;
}

int main(int argc, char **argv)
{
	int level = argc > 1 ? atoi(argv[1]) : 0;
	sx_begin();
	sx_watchdog("s_topo", ctx, 300);
	if(!freopen("/dev/null", "w", stderr)) {}
	for(int i = 0; i < 3; ++i)
		LP[i].rng_ctx = &RNG[i];
	states_init(level ? 5900 : 1500);
	shuffle_coverage();
	unsigned maxg = level ? 6 : 4, maxr = level ? 8 : 6;
	for(int g = TOPOLOGY_HEXAGON; g <= TOPOLOGY_TORUS; ++g)
		for(unsigned h = 1; h <= maxg; ++h)
			for(unsigned w = 1; w <= maxg; ++w)
				check_topology(g, h, w, 0, 0);
	sx_sample("grid: hexagon/square/torus h,w in 1..%u, every source, every fixed direction, DIRECTION_RANDOM on %d generator states", maxg,
	    NS);
	for(int g = TOPOLOGY_RING; g <= TOPOLOGY_FCMESH; ++g)
		for(unsigned r = 1; r <= maxr; ++r)
			check_topology(g, 0, 0, r, 0);
	/* graphs: every link set on <= 3 regions, and a family on 5 */
	for(unsigned r = 1; r <= 3; ++r)
		for(unsigned m = 0; m < (1u << (r * r)); ++m)
			check_topology(TOPOLOGY_GRAPH, 0, 0, r, m);
	check_topology(TOPOLOGY_GRAPH, 0, 0, 5, 0x1084210 >> 1);
	check_topology(TOPOLOGY_GRAPH, 0, 0, 5, 0x0f83e0f);
	sx_sample("graph: every link set on 1..3 regions (%u graphs), probabilities 1/outdegree", 2 + 16 + 512);
	/* free-running two-thread pass: same answers as the sequential calls with the same states */
	{
		mt_topo = InitializeTopology(TOPOLOGY_SQUARE, 3, 3);
		lp_id_t seq[2][64];
		for(int id = 0; id < 2; ++id)
			for(int k = 0; k < 64; ++k)
				seq[id][k] = call_random(id, mt_topo, (lp_id_t)(4 + id), &S[(k * 13 + id * 5) % NS]);
		for(int rep = 0; rep < (level ? 200 : 40); ++rep) {
			pthread_t th[2];
			for(long id = 0; id < 2; ++id)
				pthread_create(&th[id], NULL, mt_worker, (void *)id);
			for(int id = 0; id < 2; ++id)
				pthread_join(th[id], NULL);
			for(int id = 0; id < 2; ++id)
				for(int k = 0; k < 64; ++k)
					if(mt_ans[id][k] != seq[id][k]) {
						snprintf(ctx, sizeof ctx, "square 3x3, two threads, LP %d call %d:", id, k);
						viol("DIRECTION_RANDOM differs when another thread uses the library concurrently", "");
						rep = 1 << 20;
						id = 2;
						break;
					}
		}
		ReleaseTopology(mt_topo);
	}
	char extra[160];
	snprintf(extra, sizeof extra, "\"generator_states\": %d, \"shuffle_index_tuples_covered\": %d, \"max_grid\": %u, \"max_regions\": %u", NS,
	    perm_count, maxg, maxr);
	alarm(0);
	return sx_report("s_topo", 1, extra);
}
