/* s_cmp - C16: the real msg_is_before (lp/msg.h) and q_elem_is_before (datatypes/msg_queue.c)
 * evaluated on every ordered triple of a structured event alphabet.  Oracle: strict weak order
 * (irreflexive, asymmetric, transitive, transitive incomparability) and dependence on content only. */
#include "sx.h"
#include <ROOT-Sim.h>
#include <core/core.h>
#include <lp/lp.h>
#include <lp/msg.h>
#include <log/log.h>
/* pull in the queue's private comparator macro and element type */
#include <datatypes/msg_queue.c>

struct simulation_configuration global_config;
__thread rid_t rid;
nid_t n_nodes = 1, nid;
uint64_t lid_node_first;
lp_id_t n_lps_node;
struct lp_ctx *lps;
void vlogger(enum log_level level, char *file, unsigned line, const char *fmt, ...)
{
	(void)level, (void)file, (void)line, (void)fmt;
}
void msg_allocator_free(struct lp_msg *msg)
{
	(void)msg;
}
/* hooks referenced by vy.h when this file is compiled with it (it is not, but keep the symbols) */
int vy_pre(int k, const volatile void *a, unsigned s, const char *f, int l)
{
	(void)k, (void)a, (void)s, (void)f, (void)l;
	return 0;
}
void vy_post(int k, const volatile void *a, unsigned s)
{
	(void)k, (void)a, (void)s;
}

#define MAXE 400
static struct lp_msg *E[MAXE];
static char desc[MAXE][96];
static int NE;

static struct lp_msg *mk(double t, int anti, unsigned type, unsigned size, int var)
{
	struct lp_msg *m = calloc(1, offsetof(struct lp_msg, extra_pl) + 16);
	m->dest_t = t;
	m->raw_flags = anti ? MSG_FLAG_ANTI : 0;
	m->m_type = type;
	m->pl_size = size;
	unsigned char *p = m->pl;
	memset(p, 0x55, size);
	/* var 0: base; 1: first byte; 2: byte 31 (32nd); 3: byte 32 (33rd, first of extra_pl); 4: last byte */
	if(var == 1 && size >= 1)
		p[0] = 0x56;
	if(var == 2 && size >= 32)
		p[31] = 0x54;
	if(var == 3 && size >= 33)
		p[32] = 0x56;
	if(var == 4 && size >= 34)
		p[size - 1] = 0x54;
	return m;
}

static int nvar(unsigned size)
{
	return size == 0 ? 1 : size < 32 ? 2 : size == 32 ? 3 : size == 33 ? 4 : 5;
}

static struct lp_msg *clone_variant(const struct lp_msg *e, int v)
{
	struct lp_msg *m = calloc(1, offsetof(struct lp_msg, extra_pl) + 16);
	memcpy(m, e, offsetof(struct lp_msg, extra_pl) + 16);
	switch(v) {
		case 0:
			m->raw_flags |= MSG_FLAG_PROCESSED;
			break;
		case 1: /* remote id bits: node 3, thread 5, gvt phase bits are cleared on receive */
			m->raw_flags |= (3u << (MAX_THREADS_EXP + 2)) | (5u << 2);
			break;
		case 2:
			m->m_seq = 0xdeadbeef;
			break;
		case 3:
			m->dest = 77;
			break;
		case 4:
			m->next = (struct lp_msg *)(uintptr_t)0x1000;
			break;
		case 6: /* what the buffer holds beyond the payload (recycled buffers are not cleared) */
			memset(m->pl + m->pl_size, 0xaa, MSG_PAYLOAD_BASE_SIZE + 16 - m->pl_size);
			break;
		default:
			break; /* 5: only the address differs */
	}
	return m;
}

static int R_msg(const struct lp_msg *a, const struct lp_msg *b)
{
	return msg_is_before(a, b);
}

static int R_q(const struct lp_msg *a, const struct lp_msg *b)
{
	struct q_elem ea = {.t = a->dest_t, .m = (struct lp_msg *)a}, eb = {.t = b->dest_t, .m = (struct lp_msg *)b};
	return q_elem_is_before(ea, eb);
}

static unsigned char M[MAXE][MAXE];

static void check_relation(const char *rel, int (*R)(const struct lp_msg *, const struct lp_msg *))
{
	char sig[400];
	for(int a = 0; a < NE; ++a)
		for(int b = 0; b < NE; ++b)
			M[a][b] = (unsigned char)(R(E[a], E[b]) != 0);
	for(int a = 0; a < NE; ++a) {
		/* irreflexive, also against a byte-identical copy at another address */
		struct lp_msg *c = clone_variant(E[a], 5);
		if(M[a][a] || R(E[a], c) || R(c, E[a])) {
			snprintf(sig, sizeof sig, "%s: not irreflexive", rel);
			sx_violation(sig, "a=%s", desc[a]);
		}
		free(c);
		for(int b = 0; b < NE; ++b) {
			if(M[a][b] && M[b][a]) {
				snprintf(sig, sizeof sig, "%s: not asymmetric", rel);
				sx_violation(sig, "a=%s b=%s", desc[a], desc[b]);
			}
			if(E[a]->dest_t < E[b]->dest_t && !M[a][b]) {
				snprintf(sig, sizeof sig, "%s: smaller timestamp not ordered first", rel);
				sx_violation(sig, "a=%s b=%s", desc[a], desc[b]);
			}
		}
	}
	uint64_t nontriv = 0;
	for(int a = 0; a < NE; ++a)
		for(int b = 0; b < NE; ++b) {
			int iab = !M[a][b] && !M[b][a];
			for(int c = 0; c < NE; ++c) {
				sx_evals++;
				if(E[a]->dest_t == E[b]->dest_t && E[b]->dest_t == E[c]->dest_t && a != b && b != c && a != c)
					nontriv++;
				if(M[a][b] && M[b][c] && !M[a][c]) {
					snprintf(sig, sizeof sig, "%s: not transitive", rel);
					sx_violation(sig, "a=%s b=%s c=%s", desc[a], desc[b], desc[c]);
				}
				if(iab && !M[b][c] && !M[c][b] && (M[a][c] || M[c][a])) {
					snprintf(sig, sizeof sig, "%s: incomparability not transitive", rel);
					sx_violation(sig, "a=%s b=%s c=%s", desc[a], desc[b], desc[c]);
				}
			}
		}
	sx_nontrivial += nontriv;
	/* content only: variants differing in non-content fields are incomparable with the original and compare
	 * identically against everything */
	for(int a = 0; a < NE; ++a)
		for(int v = 0; v < 7; ++v) {
			struct lp_msg *x = clone_variant(E[a], v);
			if(R(E[a], x) || R(x, E[a])) {
				snprintf(sig, sizeof sig, "%s: depends on a non-content field (variant %d)", rel, v);
				sx_violation(sig, "a=%s variant=%d", desc[a], v);
			}
			for(int b = 0; b < NE; ++b) {
				sx_evals++;
				if((R(x, E[b]) != 0) != M[a][b] || (R(E[b], x) != 0) != M[b][a]) {
					snprintf(sig, sizeof sig, "%s: depends on a non-content field (variant %d)", rel, v);
					sx_violation(sig, "a=%s variant=%d b=%s", desc[a], v, desc[b]);
				}
			}
			free(x);
		}
}

int main(int argc, char **argv)
{
	int nt = argc > 1 ? atoi(argv[1]) : 2;
	sx_begin();
	static const unsigned sizes[] = {0, 1, 32, 33, 40};
	for(int t = 0; t < nt; ++t)
		for(int anti = 0; anti < 2; ++anti)
			for(unsigned type = 0; type < 3; ++type)
				for(int si = 0; si < 5; ++si)
					for(int v = 0; v < nvar(sizes[si]); ++v) {
						E[NE] = mk((double)t, anti, type, sizes[si], v);
						snprintf(desc[NE], sizeof desc[NE], "(t=%d anti=%d type=%u size=%u content#%d)", t, anti,
						    type, sizes[si], v);
						NE++;
					}
	check_relation("msg_is_before", R_msg);
	check_relation("q_elem_is_before", R_q);
	sx_sample("triple over alphabet of %d events, e.g. %s %s %s", NE, desc[3], desc[17], desc[NE - 1]);
	int ne1 = NE;
	/* second alphabet: the type code is any 32-bit value the model chooses - values spanning the whole range (differences >= 2^31),
	 * on timestamp ties */
	static const unsigned wide[] = {0u, 1u, 0x60000000u, 0x7fffffffu, 0x80000000u, 0xc0000000u, 0xffffffffu};
	static const unsigned wsizes[] = {0, 33};
	NE = 0;
	for(int t = 0; t < 2; ++t)
		for(int anti = 0; anti < 2; ++anti)
			for(int ti = 0; ti < 7; ++ti)
				for(int si = 0; si < 2; ++si)
					for(int v = 0; v < nvar(wsizes[si]) && v < 2; ++v) {
						E[NE] = mk((double)t, anti, wide[ti], wsizes[si], v);
						snprintf(desc[NE], sizeof desc[NE], "(t=%d anti=%d type=0x%x size=%u content#%d)", t, anti, wide[ti], wsizes[si], v);
						NE++;
					}
	check_relation("msg_is_before", R_msg);
	check_relation("q_elem_is_before", R_q);
	sx_sample("triple over the wide-type alphabet of %d events, e.g. %s %s", NE, desc[5], desc[NE - 1]);
	NE += ne1;
	sx_sample("variant check: %s with PROCESSED bit / remote id bits / m_seq / dest / next / address / bytes beyond the payload changed", desc[5]);
	char extra[200];
	snprintf(extra, sizeof extra, "\"alphabet\": %d, \"relations\": 2", NE);
	return sx_report("s_cmp", 1, extra);
}
