/* h_gvt - C04(b): the GVT reduction (gvt/gvt.c, included here so that its file-scope state is visible to the
 * digest) together with the real inter-thread queue (datatypes/msg_queue.c), closed by a small cyclic driver:
 * T worker threads run the shape of the real main loop for ever (take control messages, K process steps, one
 * gvt_phase_run) on a finite message workload in which every message may spawn one child for another thread.
 * Complete-state search (--stateful): all interleavings at atomic-operation and step granularity until the state
 * graph is closed.  Oracle G: reported values non-decreasing and equal per round on all threads; when a thread is told
 * g, every message that is queued, or extracted and still being processed, has timestamp >= g; no thread extracts a
 * message below a value it was told.
 * Compiled with -include vy.h (the atomics of the included core files are hooked). */
#include "../engine/rsched.h"
#include <ROOT-Sim.h>
#include <core/core.h>
#include <lp/lp.h>
#include <log/log.h>

/* the code under test */
#include <gvt/gvt.c>
#include <datatypes/msg_queue.c>

struct simulation_configuration global_config;
__thread rid_t rid;
nid_t n_nodes = 1, nid;
uint64_t lid_node_first;
lp_id_t n_lps_node;
struct lp_ctx *lps;
void vlogger(enum log_level level, char *file, unsigned line, const char *fmt, ...) { (void)level, (void)file, (void)line, (void)fmt; }
void msg_allocator_free(struct lp_msg *msg) { (void)msg; }
bool sync_thread_barrier(void) { return false; }

/* ---- the MPI layer of a single node: collectives complete at once, control messages go to a node-wide inbox ---- */
static int inbox_start, inbox_done;
void mpi_control_msg_broadcast(enum msg_ctrl_code ctrl)
{
	if(ctrl == MSG_CTRL_GVT_START)
		inbox_start++;
	rs_effect();
}
void mpi_control_msg_send_to(enum msg_ctrl_code ctrl, nid_t dest)
{
	(void)dest;
	if(ctrl == MSG_CTRL_GVT_DONE)
		inbox_done++;
	rs_effect();
}
void mpi_reduce_sum_scatter(const uint32_t values[n_nodes], uint32_t *result) { *result = values[0]; }
bool mpi_reduce_sum_scatter_done(void) { return true; }
void mpi_reduce_min(double *node_min_p) { (void)node_min_p; }
bool mpi_reduce_min_done(void) { return true; }
void mpi_remote_msg_drain(void) {}
void mpi_node_barrier(void) {}

/* ---- workload ---- */
#define MAXT 3
#define MAXM 8
struct wmsg {
	struct lp_msg m;
	int child;       /* index of the message this one sends when processed, or -1 */
	int state;       /* 0 not yet created, 1 queued, 2 held (extracted, being processed), 3 done */
	int owner;       /* thread that holds it in state 2 */
};
static struct wmsg W[MAXM];
static int NM;
static int T = 2, K = 2;
static const char *P_work = "a";

/* published thread-local state (the digest runs on whichever thread is current) */
static int pub_tphase[MAXT], pub_nphase[MAXT], pub_gphase[MAXT], pub_step[MAXT];
static double pub_acc[MAXT], told[MAXT];
static int nrep[MAXT];
static double rep[MAXT][3]; /* last values (window) */
static uint64_t heap_sig[MAXT];
/* path of each thread through the GVT state machine since it was last idle: distinct consecutive source lines of its
 * hooked operations in gvt.c (the function-local node phase is a function of this path) */
static uint64_t path_sig[MAXT];
static int path_last[MAXT];
static const volatile void *gwords[16];
static int ngwords;
static int fineq;
static volatile uint32_t started; /* start gate: the real runtime has a barrier between msg_queue_init() and the first insert */

enum { C_ROUNDS, C_MSGS, C_INFLIGHT_AT_REPORT, C_HELD_AT_REPORT };

static void on_op(int kind, const volatile void *addr, unsigned size, const char *file, int line, uint64_t before, uint64_t after)
{
	(void)kind, (void)before, (void)after;
	if(!strstr(file, "gvt/gvt.c") || size != 4)
		return;
	int t = (int)rid, f = 0;
	if(line != path_last[t]) {
		path_sig[t] = rs_mix(path_sig[t], (uint64_t)line);
		path_last[t] = line;
	}
	for(int i = 0; i < ngwords; ++i)
		f |= gwords[i] == addr;
	if(!f && ngwords < 16)
		gwords[ngwords++] = addr;
}

static void publish(int t)
{
	if(thread_phase == thread_phase_idle && pub_tphase[t] != 0) {
		path_sig[t] = 0;
		path_last[t] = 0;
	}
	pub_tphase[t] = (int)thread_phase;
	pub_gphase[t] = (int)gvt_phase;
	pub_acc[t] = gvt_accumulator;
	uint64_t h = 3;
	for(array_count_t i = 0; i < heap_count(mqp); ++i)
		h = rs_mix(h, (uint64_t)((struct wmsg *)heap_items(mqp)[i].m - W) + 1);
	heap_sig[t] = h;
}

static void check_report(int t, double g)
{
	if(g < told[t])
		rs_fail("C04 GVT decreased on thread %d: %g after %g", t, g, told[t]);
	for(int i = 0; i < NM; ++i) {
		if(W[i].state == 1 && W[i].m.dest_t < g)
			rs_fail("C04 unsafe GVT: thread %d told %g while message %d (t=%g) is still queued for thread %llu", t, g, i,
			    W[i].m.dest_t, (unsigned long long)W[i].m.dest);
		if(W[i].state == 2 && W[i].m.dest_t < g)
			rs_fail("C04 unsafe GVT: thread %d told %g while message %d (t=%g) is extracted and still being processed by thread %d", t,
			    g, i, W[i].m.dest_t, W[i].owner);
		if(W[i].state == 1)
			rs_count(C_INFLIGHT_AT_REPORT, 1);
		if(W[i].state == 2)
			rs_count(C_HELD_AT_REPORT, 1);
	}
	/* agreement: the k-th report is the same on every thread (window of the last reports) */
	int k = nrep[t];
	for(int o = 0; o < T; ++o)
		if(o != t && nrep[o] > k && rep[o][k % 3] != g && nrep[o] - k <= 2)
			rs_fail("C04 GVT disagreement: report #%d is %g on thread %d but %g on thread %d", k, g, t, rep[o][k % 3], o);
	rep[t][k % 3] = g;
	nrep[t] = k + 1;
	told[t] = g;
	rs_count(C_ROUNDS, 1);
}

static void *worker(void *arg)
{
	int t = (int)(long)arg;
	rid = (rid_t)t;
	rs_set_role("worker");
	msg_queue_init();
	publish(t);
	started++;
	rs_effect();
	while(started < (uint32_t)T) {
		rs_env_load(&started, 4, "start-gate");
		rs_point("start-gate");
	}
	/* the initial messages of this thread */
	for(int i = 0; i < NM; ++i)
		if(W[i].state == 1 && (int)W[i].m.dest == t && W[i].owner == -2) {
			W[i].owner = -1;
			msg_queue_insert(&W[i].m);
		}
	for(;;) {
		pub_step[t] = 0;
		rs_point("ctrl");
		while(inbox_start > 0 || inbox_done > 0) {
			if(inbox_start > 0) {
				inbox_start--;
				gvt_start_processing();
			} else {
				inbox_done--;
				gvt_on_done_ctrl_msg();
			}
			rs_effect();
			publish(t);
		}
		for(int k = 0; k < K; ++k) {
			pub_step[t] = 1 + k;
			rs_point("process");
			struct lp_msg *m = msg_queue_extract();
			publish(t);
			if(!m)
				continue;
			struct wmsg *w = (struct wmsg *)m;
			if(m->dest_t < told[t])
				rs_fail("C04 thread %d extracted message %d with timestamp %g below the GVT %g it was told", t, (int)(w - W), m->dest_t,
				    told[t]);
			w->state = 2;
			w->owner = t;
			gvt_on_msg_extraction(m->dest_t);
			publish(t);
			rs_effect();
			pub_step[t] = 10 + k;
			rs_point("mid-process");
			if(w->child >= 0) {
				struct wmsg *c = &W[w->child];
				c->state = 1;
				msg_queue_insert(&c->m);
			}
			w->state = 3;
			rs_count(C_MSGS, 1);
			rs_effect();
		}
		pub_step[t] = 20;
		rs_point("gvt");
		simtime_t g = gvt_phase_run();
		publish(t);
		if(g != 0.0)
			check_report(t, g);
	}
	return NULL;
}

/* workload description: a list of chains "t0:d1>t1:d2>t2"; each element = destination thread and delay */
static void build_work(void)
{
	NM = 0;
	const char *p = P_work;
	/* predefined workloads */
	struct {
		int dest, delay, child;
		double t;
	} defs[3][MAXM] = {
	    /* a: one chain 0 -> 1 -> 0 with a zero-delay hop */
	    {{0, 0, 1, 1}, {1, 1, 2, 2}, {0, 0, -1, 2}},
	    /* b: two chains crossing */
	    {{0, 0, 1, 1}, {1, 0, -1, 1}, {1, 0, 3, 1}, {0, 1, -1, 2}},
	    /* c: three threads */
	    {{0, 0, 1, 1}, {1, 1, 2, 2}, {2, 0, 3, 2}, {0, 1, -1, 3}},
	};
	int nd[3] = {3, 4, 4};
	int w = *p == 'b' ? 1 : *p == 'c' ? 2 : 0;
	NM = nd[w];
	int has_parent[MAXM] = {0};
	for(int i = 0; i < NM; ++i)
		if(defs[w][i].child >= 0)
			has_parent[defs[w][i].child] = 1;
	for(int i = 0; i < NM; ++i) {
		memset(&W[i], 0, sizeof W[i]);
		W[i].m.dest = (lp_id_t)defs[w][i].dest;
		W[i].m.dest_t = defs[w][i].t;
		W[i].m.m_type = (unsigned)i;
		W[i].child = defs[w][i].child;
		W[i].state = has_parent[i] ? 0 : 1;
		W[i].owner = has_parent[i] ? -1 : -2; /* -2: to be inserted by its destination thread at start */
	}
}

static void body(void)
{
	global_config.n_threads = (unsigned)T;
	global_config.lps = (lp_id_t)T;
	global_config.gvt_period = 0;
	n_lps_node = (lp_id_t)T;
	build_work();
	msg_queue_global_init();
	memset(queues, 0, sizeof(*queues) * (size_t)T); /* aligned_alloc does not zero; the digest walks the lists from the start */
	gvt_global_init();
	int ids[MAXT];
	for(long t = 0; t < T; ++t)
		ids[t] = rs_thread_create(worker, (void *)t);
	for(int t = 0; t < T; ++t)
		rs_thread_join(ids[t]);
}

static uint64_t digest(void)
{
	uint64_t h = 11;
	/* every atomic word of gvt.c seen so far (c_a, c_b, c_c, c_d, total_msg_received, gvt_nodes, total_sent[0]), in address order */
	{
		const volatile void *w[16];
		int n = ngwords;
		memcpy(w, gwords, sizeof w);
		for(int i = 0; i < n; ++i)
			for(int j = i + 1; j < n; ++j)
				if(w[j] < w[i]) {
					const volatile void *x = w[i];
					w[i] = w[j];
					w[j] = x;
				}
		for(int i = 0; i < n; ++i)
			h = rs_mix(h, *(const volatile uint32_t *)w[i]);
	}
	h = rs_mix(h, (uint64_t)inbox_start | (uint64_t)inbox_done << 8);
	for(int t = 0; t < T; ++t) {
		h = rs_mix(h, (uint64_t)pub_tphase[t] | (uint64_t)pub_gphase[t] << 4 | (uint64_t)pub_step[t] << 8);
		uint64_t a, r, g;
		memcpy(&a, &pub_acc[t], 8);
		memcpy(&r, &reducing_p[t], 8);
		memcpy(&g, &told[t], 8);
		h = rs_mix(h, a);
		h = rs_mix(h, r);
		h = rs_mix(h, g);
		h = rs_mix(h, heap_sig[t]);
		h = rs_mix(h, path_sig[t]);
		h = rs_mix(h, (uint64_t)(nrep[t] - nrep[0] + 8));
		/* the inter-thread list of this thread */
		const struct lp_msg *m = queues ? *(struct lp_msg *const volatile *)&queues[t].list : NULL;
		int guard = 0;
		while(m && guard++ < 16) {
			h = rs_mix(h, (uint64_t)((const struct wmsg *)m - W) + 100);
			m = m->next;
		}
	}
	for(int i = 0; i < NM; ++i)
		h = rs_mix(h, (uint64_t)W[i].state | (uint64_t)(W[i].owner + 4) << 4);
	return h;
}

static int fine(const char *file)
{
	return strstr(file, "gvt/gvt.c") != NULL || (fineq && strstr(file, "msg_queue.c"));
}

static void configure(int argc, char **argv)
{
	(void)argc, (void)argv;
	T = (int)rs_param_int("T", 2);
	K = (int)rs_param_int("K", 2);
	P_work = rs_param("w", "a");
	fineq = (int)rs_param_int("fineq", 0);
	if(T > MAXT)
		exit(2);
}

static const struct rs_harness H = {
    .name = "h_gvt",
    .configure = configure,
    .body = body,
    .digest = digest,
    .fine_file = fine,
    .on_op = on_op,
    .counter_names = {[C_ROUNDS] = "gvt_reports", [C_MSGS] = "messages_processed", [C_INFLIGHT_AT_REPORT] = "queued_at_report",
	[C_HELD_AT_REPORT] = "held_at_report"},
};

int main(int argc, char **argv)
{
	return rs_main(argc, argv, &H);
}
