/* s_term - C07, module level: every sequence of the termination module's entry points (gvt/termination.c) up to a
 * depth, for 2 LPs on one thread, against a shadow that keeps the valid per-LP event history: events processed with a
 * chosen predicate outcome, rollbacks to a chosen point (timestamp t, k of the events at exactly t surviving), GVT
 * reports.  Oracle: the thread may vote to terminate at GVT g only if g reached the termination time or every LP's
 * predicate is true at initialisation or after a still-valid event with timestamp below g.
 * Mode "live" (C08): the converse, against a boring reference of the module's own rule - an LP is terminated if its
 * predicate held at LP_INIT (for good), or since an event at time T with a true predicate as long as no rollback at a time
 * <= T follows; when every LP is terminated and the reported GVT is above every termination time ever declared, the thread
 * must vote at that report (otherwise a run whose predicates all hold on committed states never ends by them). */
#include "sx.h"
#include <ROOT-Sim.h>
#include <core/core.h>
#include <lp/lp.h>
#include <log/log.h>
#include <distributed/mpi.h>

/* the module under test, with its file-scope state visible so that it can be reset between sequences */
#include <gvt/termination.c>

struct simulation_configuration global_config;
nid_t n_nodes = 1, nid;
struct lp_ctx *lps;
__thread struct lp_ctx *current_lp;
void vlogger(enum log_level level, char *file, unsigned line, const char *fmt, ...) { (void)level, (void)file, (void)line, (void)fmt; }
static int votes;
void mpi_control_msg_broadcast(enum msg_ctrl_code ctrl)
{
	if(ctrl == MSG_CTRL_TERMINATION)
		votes++;
}

#define NL 2
#define MAXE 8
static struct lp_ctx LP[NL];
static int pred_now[NL];
static bool committed_cb(lp_id_t me, const void *st)
{
	(void)st;
	return pred_now[me];
}

struct ev {
	int t, pred;
};
static struct ev hist[NL][MAXE];
static int nh[NL];
static int pred_init[NL];
static int gvt_told;
static int live_mode;
#define T_INF 1000
static int ref_term[NL]; /* reference: -1 = not terminated, else the time it is terminated since (T_INF: at LP_INIT) */
static int maxtrue_ever;

enum { OP_P, OP_RB, OP_G };
struct op {
	uint8_t kind, lp, t, x; /* x: predicate outcome (P), surviving events at exactly t (RB) */
};
static char trace[400];

static void reset(int initmask)
{
	lps = LP;
	lps_to_end = 0;
	max_t = 0;
	votes = 0;
	gvt_told = 0;
	maxtrue_ever = -1;
	global_config.n_threads = 1;
	global_config.termination_time = SIMTIME_MAX;
	global_config.committed = committed_cb;
	termination_global_init();
	snprintf(trace, sizeof trace, "init=%d%d ", initmask & 1, (initmask >> 1) & 1);
	for(int l = 0; l < NL; ++l) {
		nh[l] = 0;
		pred_init[l] = pred_now[l] = (initmask >> l) & 1;
		ref_term[l] = pred_init[l] ? T_INF : -1;
		termination_lp_init(&LP[l]);
	}
}

/* returns 0 if the operation is not legal in the current shadow state */
static int apply(struct op o)
{
	size_t tl = strlen(trace);
	switch(o.kind) {
		case OP_P:
			if(o.t < gvt_told || (nh[o.lp] && o.t < hist[o.lp][nh[o.lp] - 1].t) || nh[o.lp] >= MAXE)
				return 0;
			hist[o.lp][nh[o.lp]++] = (struct ev){o.t, o.x};
			pred_now[o.lp] = o.x;
			snprintf(trace + tl, sizeof trace - tl, "P(lp%d,t=%d,%s) ", o.lp, o.t, o.x ? "true" : "false");
			if(ref_term[o.lp] < 0 && o.x) {
				ref_term[o.lp] = o.t;
				if(o.t > maxtrue_ever)
					maxtrue_ever = o.t;
			}
			termination_on_msg_process(&LP[o.lp], (simtime_t)o.t);
			return 1;
		case OP_RB: {
			if(o.t < gvt_told)
				return 0;
			/* events with timestamp > t are undone; of those at exactly t the first x survive */
			int keep = 0, at_t = 0;
			for(int i = 0; i < nh[o.lp]; ++i) {
				if(hist[o.lp][i].t < o.t)
					keep = i + 1;
				else if(hist[o.lp][i].t == o.t)
					at_t++;
			}
			if(o.x > at_t)
				return 0;
			keep += o.x;
			if(keep == nh[o.lp])
				return 0; /* a rollback undoes at least one event */
			nh[o.lp] = keep;
			pred_now[o.lp] = keep ? hist[o.lp][keep - 1].pred : pred_init[o.lp];
			snprintf(trace + tl, sizeof trace - tl, "RB(lp%d,t=%d,keep %d at t) ", o.lp, o.t, o.x);
			if(ref_term[o.lp] != T_INF && ref_term[o.lp] >= o.t)
				ref_term[o.lp] = -1;
			termination_on_lp_rollback(&LP[o.lp], (simtime_t)o.t);
			return 1;
		}
		default:
			if(o.t < gvt_told || o.t == 0)
				return 0;
			gvt_told = o.t;
			snprintf(trace + tl, sizeof trace - tl, "GVT(%d) ", o.t);
			termination_on_gvt((simtime_t)o.t);
			return 1;
	}
}

static int legit(int g)
{
	for(int l = 0; l < NL; ++l) {
		int ok = pred_init[l];
		for(int i = 0; i < nh[l] && !ok; ++i)
			ok = hist[l][i].pred && hist[l][i].t < g;
		if(!ok)
			return 0;
	}
	return 1;
}

static struct op seq[12];
static int depth_max;

static void dfs(int depth, int initmask)
{
	if(sx_stop())
		return;
	if(depth == depth_max)
		return;
	for(int kind = 0; kind < 3; ++kind)
		for(int lp = 0; lp < (kind == OP_G ? 1 : NL); ++lp)
			for(int t = 0; t <= 3; ++t)
				for(int x = 0; x <= (kind == OP_G ? 0 : kind == OP_P ? 1 : 2); ++x) {
					/* rebuild the state of the prefix, then try the operation */
					reset(initmask);
					int ok = 1;
					for(int i = 0; i < depth && ok; ++i)
						ok = apply(seq[i]);
					if(!ok || votes)
						continue;
					struct op o = {(uint8_t)kind, (uint8_t)lp, (uint8_t)t, (uint8_t)x};
					if(!apply(o))
						continue;
					sx_evals++, sx_tick();
					sx_transitions++;
					if(kind == OP_RB)
						sx_nontrivial++;
					if(live_mode) {
						int all = 1;
						for(int l = 0; l < NL; ++l)
							all &= ref_term[l] >= 0;
						if(kind == OP_G && !votes && all && gvt_told > maxtrue_ever)
							sx_violation("no termination vote at a GVT report although every LP is terminated below it", "%s", trace);
						if(kind == OP_G && all && gvt_told > maxtrue_ever)
							sx_states++;
					} else if(votes && !legit(gvt_told)) {
						sx_violation("termination vote although some LP's predicate never held on a still-valid event below the GVT",
						    "%s", trace);
						continue;
					}
					if(sx_evals == 50 || sx_evals == 50000 || sx_evals == 2000000)
						sx_sample("%s-> %s", trace, votes ? "votes to terminate" : "no vote");
					if(votes)
						continue;
					seq[depth] = o;
					dfs(depth + 1, initmask);
				}
}

int main(int argc, char **argv)
{
	depth_max = argc > 1 ? atoi(argv[1]) : 5;
	live_mode = argc > 2 && !strcmp(argv[2], "live");
	sx_begin();
	sx_watchdog("s_term", trace, 120);
	for(int initmask = 0; initmask < (1 << NL); ++initmask)
		dfs(0, initmask);
	alarm(0);
	char extra[100];
	snprintf(extra, sizeof extra, "\"depth\": %d, \"lps\": %d", depth_max, NL);
	return sx_report("s_term", 1, extra);
}
