/* h_run - a vmodel model on the real parallel runtime (RootsimInit/RootsimRun, all of /repo/src except
 * arch/thread.c) under rsched, one MPI rank (fake MPI carries the control messages to self).
 * Observation is by link-level wrappers (vw_*) around cross-translation-unit calls of the core and by
 * the model's own callbacks.  Oracles (DESIGN.md 2.4): E end state, K commit log, G GVT, R rollback,
 * M message life cycle, T termination, L liveness (engine), S statistics. */
#include "../engine/rsched.h"
#include "../engine/fakempi/mpi.h"
#include "../model/vmodel.h"
#include "../model/refexec.h"
#include <ROOT-Sim.h>
#include <core/core.h>
#include <datatypes/msg_queue.h>
#include <distributed/mpi.h>
#include <gvt/fossil.h>
#include <gvt/gvt.h>
#include <gvt/termination.h>
#include <log/stats.h>
#include <lp/lp.h>
#include <lp/msg.h>
#include <lp/process.h>
#include <mm/model_allocator.h>
#include <mm/msg_allocator.h>
#include <lib/random/random.h>
#include <lib/random/xoroshiro.h>
#include <math.h>
#include <stdlib.h>
#include <string.h>
#include <unistd.h>

#include "../model/rankapi.h"

extern struct vm_env vm_core_env;

/* per-rank copies of the core: everything the harness touches goes through the calling thread's rank */
RK_DECL(RootsimInit);
RK_DECL(RootsimRun);
RK_DECL(RootsimStop);
RK_DECL(gvt_phase_run);
RK_DECL(process_msg);
RK_DECL(mpi_remote_msg_handle);
RK_DECL(gvt_msg_drain);
RK_DECL(msg_queue_insert);
RK_DECL(msg_queue_extract);
RK_DECL(msg_allocator_alloc);
RK_DECL(msg_allocator_free);
RK_DECL(msg_allocator_free_at_gvt);
RK_DECL(msg_allocator_on_gvt);
RK_DECL(fossil_lp_collect);
RK_DECL(process_lp_fini);
RK_DECL(process_lp_init);
RK_DECL(termination_on_msg_process);
RK_DECL(termination_on_lp_rollback);
RK_DECL(model_allocator_checkpoint_take);
RK_DECL(model_allocator_checkpoint_restore);
RK_DECL(stats_take);
RK_DECL(stats_on_gvt);
RK_DECL(mpi_remote_msg_send);
RK_DECL(mpi_remote_anti_msg_send);
RK_DECL(global_config);
RK_DECL(lps);
RK_DECL(lid_node_first);
RK_DECL(n_lps_node);
RK_DECL(n_nodes);
RK_DECL(nid);
RK_DECL_TLS(rid);
RK_DECL_TLS(current_lp);
#ifdef NRANKS
#define RootsimInit RKF(RootsimInit)
#define RootsimRun RKF(RootsimRun)
#define RootsimStop RKF(RootsimStop)
#define gvt_phase_run RKF(gvt_phase_run)
#define process_msg RKF(process_msg)
#define mpi_remote_msg_handle RKF(mpi_remote_msg_handle)
#define gvt_msg_drain RKF(gvt_msg_drain)
#define msg_queue_insert RKF(msg_queue_insert)
#define msg_queue_extract RKF(msg_queue_extract)
#define msg_allocator_alloc RKF(msg_allocator_alloc)
#define msg_allocator_free RKF(msg_allocator_free)
#define msg_allocator_free_at_gvt RKF(msg_allocator_free_at_gvt)
#define msg_allocator_on_gvt RKF(msg_allocator_on_gvt)
#define fossil_lp_collect RKF(fossil_lp_collect)
#define process_lp_fini RKF(process_lp_fini)
#define process_lp_init RKF(process_lp_init)
#define termination_on_msg_process RKF(termination_on_msg_process)
#define termination_on_lp_rollback RKF(termination_on_lp_rollback)
#define model_allocator_checkpoint_take RKF(model_allocator_checkpoint_take)
#define model_allocator_checkpoint_restore RKF(model_allocator_checkpoint_restore)
#define stats_take RKF(stats_take)
#define stats_on_gvt RKF(stats_on_gvt)
#define mpi_remote_msg_send RKF(mpi_remote_msg_send)
#define mpi_remote_anti_msg_send RKF(mpi_remote_anti_msg_send)
#define global_config RKV(global_config)
#define LPS RKV(lps)
#define lid_node_first RKV(lid_node_first)
#define n_lps_node RKV(n_lps_node)
#define n_nodes RKV(n_nodes)
#define nid RKV(nid)
#define rid RKV(rid)
#define current_lp RKV(current_lp)
#else
#define NRANKS 1
#define LPS lps
#endif
/* global thread index of the calling worker: rank * 8 + rid */
#define TH() ((int)(rs_rank() * 8 + (int)rid))

/* ------------------------------------------------------------------ parameters */
static const char *P_model;
static unsigned P_threads = 2, P_ckpt = 1, P_gvt_large = 0;
static double P_term = 0;
static const char *P_fine = "none";
static const char *P_oracle = "all";
static int P_ext_stop = -1; /* >= 0: an external thread calls RootsimStop() after that many of its own scheduling points */
static const char *P_stats;
static int P_negative = 0;
static long P_stopprompt = 0; /* > 0: at most that many forward events may be dispatched (all ranks) after RootsimStop() was called */
static long events_after_stop;
static long P_prompt = 0; /* > 0: at most that many forward events may be dispatched after every thread was told a GVT at which all predicates hold on committed states */
static long events_after_all_hold; /* the model is non-terminating by design: returning is the violation */

enum {
	C_ROLLBACK, C_STRAGGLER, C_ANTI_LOCAL, C_ANTI_BEFORE_PROC, C_ANTI_AFTER_PROC, C_SILENT, C_FOSSIL_RELEASE, C_GVT_ROUNDS,
	C_COMMITTED, C_CKPT, C_EVENTS, C_BY_PRED, C_BY_TIME, C_BY_STOP, C_ORPHAN, C_CANCEL_IN_QUEUE, C_REQUEUE, C_E_CHECKED,
	C_T_CHECKED, C_EARLY_EXIT_THREAD, C_STATS_RECORDS, C_NEG_QUIESCENT, C_REMOTE_SENT, C_REMOTE_ANTI, C_EARLY_ANTI, C_REMOTE_ANTI_RECV, C_CANCEL_IN_HANDS, C_CANCEL_REQUEUED, C_CANCEL_PROCESSED, C_RNG_CHECKED
};

/* ------------------------------------------------------------------ monitor state */
#define MAXTH 24
#define MAXTH_DECL 24
#define MAXMSG 8192
#define MAXGV 4096
struct mrec {
	struct lp_msg *p;
	uint8_t alloc;      /* buffer currently allocated */
	uint8_t queued;     /* inserted for a thread and not yet extracted: thread + 1 */
	uint8_t in_hist;    /* present as processed entry of its LP's history */
	uint8_t has_h;
	uint64_t h_after;   /* digest published by the last forward execution */
	double t;
};
static struct mrec MR[MAXMSG];
static struct rx_result REF;
static unsigned lp_commit_idx[VM_MAXLP];
static double gvt_seq[MAXTH][MAXGV];
static unsigned gvt_n[MAXTH];
static double gvt_last[MAXTH];
static int in_coast[MAXTH];
static double coast_target_t[MAXTH];
static int qcount[MAXTH];
static int last_effective[MAXTH];
static int stop_called;
static int fini_seen[VM_MAXLP];
static uint64_t fini_digest[VM_MAXLP];
static int left_loop[MAXTH];
static int run_returned;
static int max_gvt_twice;
static int all_hold_told[MAXTH];
/* statistics shadow */
static uint64_t st_shadow[MAXTH][STATS_COUNT];
#define MAXREC 4096
static uint64_t st_rec[MAXTH][MAXREC][5]; /* processed, rollbacks, rolled back msgs, silent, ckpt  (+anti below) */
static uint64_t st_rec_anti[MAXTH][MAXREC];
static unsigned st_nrec[MAXTH];
/* what actually happened on each thread since its previous record (independent of the core's own stats_take calls) */
enum { O_FWD, O_RB, O_UNDONE, O_SILENT, O_CKPT, O_ANTI, O_N };
static uint64_t occ[MAXTH][O_N];
static uint64_t occ_rec[MAXTH][MAXREC][O_N];
static double occ_gvt[MAXTH][MAXREC];
static unsigned lp_hist_n[VM_MAXLP];
static char stats_path[300];


static struct mrec *mr_find(const struct lp_msg *p, int create)
{
	uint64_t i = ((uintptr_t)p >> 4) * 0x9e3779b97f4a7c15ULL >> 51; /* 13 bits */
	for(unsigned k = 0; k < MAXMSG; ++k, i = (i + 1) & (MAXMSG - 1)) {
		if(MR[i].p == p)
			return &MR[i];
		if(!MR[i].p) {
			if(!create)
				return NULL;
			MR[i].p = (struct lp_msg *)p;
			return &MR[i];
		}
	}
	rs_engine_error("monitor: message table full");
}

static int want(const char *o)
{
	return !strcmp(P_oracle, "all") || strstr(P_oracle, o) != NULL; /* E K G R M T L N */
}

/* ------------------------------------------------------------------ model side */
static void h_stop(void)
{
	stop_called = 1;
	RootsimStop();
}

static void h_on_fini(uint64_t me, const struct vm_state *st)
{
	fini_seen[me]++;
	current_lp = &LPS[me];
	fini_digest[me] = vm_full_digest(st);
}

static void h_dispatch(lp_id_t me, simtime_t now, unsigned type, const void *pl, unsigned size, void *st)
{
	int th = TH();
	if(type == LP_INIT && want("N")) {
		/* C09: the library stream of an LP is a function of the seed and the LP id only */
		struct rng_ctx c = *current_lp->rng_ctx;
		for(int k = 0; k < 4; ++k) {
			uint64_t v = random_u64(c.state);
			if(v != REF.rng_first[me][k])
				rs_fail("C09 random stream of LP %llu depends on its placement: draw #%d is %016llx on rank %d thread %u, %016llx in the "
					"reference", (unsigned long long)me, k, (unsigned long long)v, rs_rank(), (unsigned)rid,
				    (unsigned long long)REF.rng_first[me][k]);
		}
		rs_count(C_RNG_CHECKED, 1);
	}
	vm_process_event(me, now, type, pl, size, st);
	if(type == LP_INIT)
		occ[th][O_FWD]++;
	if(type == LP_INIT || type == LP_FINI)
		return;
	struct lp_msg *msg = (struct lp_msg *)((char *)(uintptr_t)pl - offsetof(struct lp_msg, pl));
	struct mrec *r = mr_find(msg, 1);
	uint64_t d = vm_full_digest(LPS[me].state_pointer);
	occ[th][in_coast[th] ? O_SILENT : O_FWD]++;
	if(in_coast[th]) {
		rs_count(C_SILENT, 1);
		/* silent re-execution must rebuild exactly the state the forward execution produced */
		if(want("R") && r->has_h && r->h_after != d)
			rs_fail("C05 coast forward diverges: LP %llu re-executing event t=%g type=%u yields state %016llx, forward execution had %016llx",
			    (unsigned long long)me, now, type, (unsigned long long)d, (unsigned long long)r->h_after);
	} else {
		rs_count(C_EVENTS, 1);
		if(P_stopprompt && stop_called && ++events_after_stop > P_stopprompt)
			rs_fail("C08 the run goes on although RootsimStop() was called: %ld forward events dispatched since (every worker leaves the "
				"main loop at the latest one loop iteration after the termination message reached its rank)", events_after_stop);
		if(P_prompt) {
			int all = 1;
			for(unsigned o = 0; o < global_config.n_threads; ++o)
				all &= all_hold_told[rs_rank() * 8 + (int)o];
			if(all && ++events_after_all_hold > P_prompt)
				rs_fail("C08 the run goes on although every LP's predicate holds on a committed state: %ld forward events dispatched "
					"after every worker was told a GVT beyond %g", events_after_all_hold, REF.t_all_hold);
		}
		r->h_after = d;
		r->has_h = 1;
		r->t = now;
	}
}

/* ------------------------------------------------------------------ wrappers around cross-TU calls of the core */
static void tell_gvt(int th, double g)
{
	if(gvt_n[th] >= MAXGV)
		rs_engine_error("monitor: too many GVT rounds");
	unsigned k = gvt_n[th];
	if(want("G")) {
		if(k && g < gvt_seq[th][k - 1])
			rs_fail("C04 GVT decreased on thread %d: round %u reported %g after %g", th, k, g, gvt_seq[th][k - 1]);
		for(int o = 0; o < MAXTH; ++o)
			if(o != th && gvt_n[o] > k && gvt_seq[o][k] != g)
				rs_fail("C04 GVT disagreement: round %u is %g on thread %d but %g on thread %d", k, g, th, gvt_seq[o][k], o);
		/* nothing below g may still be queued or in flight */
		for(unsigned i = 0; i < MAXMSG; ++i)
			if(MR[i].p && MR[i].queued && MR[i].alloc && MR[i].p->dest_t < g)
				rs_fail("C04 unsafe GVT: thread %d told %g while a message with timestamp %g for LP %llu is still queued for thread %d",
				    th, g, MR[i].p->dest_t, (unsigned long long)MR[i].p->dest, MR[i].queued - 1);
		if(fmpi_min_in_flight_time() < g)
			rs_fail("C04 unsafe GVT: thread %d told %g while a message with timestamp %g is in MPI flight", th, g,
			    fmpi_min_in_flight_time());
	}
	rs_logf("[t%d gvt#%u=%g] ", th, k, g);
	if(P_prompt && REF.all_pred_hold && g > REF.t_all_hold)
		all_hold_told[th] = 1;
	gvt_seq[th][k] = g;
	gvt_n[th] = k + 1;
	gvt_last[th] = g;
	rs_count(C_GVT_ROUNDS, 1);
	rs_obs((uint64_t)(g * 16));
	if(g == SIMTIME_MAX && P_negative) {
		/* quiescence cut-off for models that must never return: nothing is queued or in flight any more */
		int all = 1;
		for(unsigned o = 0; o < P_threads; ++o) /* single-rank only */
			all &= gvt_n[o] >= 2 && gvt_seq[o][gvt_n[o] - 1] == SIMTIME_MAX && gvt_seq[o][gvt_n[o] - 2] == SIMTIME_MAX;
		if(all) {
			rs_count(C_NEG_QUIESCENT, 1);
			rs_end_ok();
		}
	}
}

simtime_t vw_gvt_phase_run(void)
{
	rs_point("gvt_phase_run");
	simtime_t g = gvt_phase_run();
	if(g != 0.0)
		tell_gvt(TH(), g);
	return g;
}

void vw_process_msg(void)
{
	int th = TH();
	if(qcount[th] > 0 || last_effective[th]) {
		rs_point("process_msg");
		last_effective[th] = qcount[th] > 0;
	}
	process_msg();
}

void vw_mpi_remote_msg_handle(void)
{
	rs_point("mpi_remote_msg_handle");
	mpi_remote_msg_handle();
}

void vw_gvt_msg_drain(void)
{
	left_loop[TH()] = 1;
	rs_point("gvt_msg_drain");
	gvt_msg_drain();
}

void vw_msg_queue_insert(struct lp_msg *msg)
{
	int th = TH();
	struct mrec *r = mr_find(msg, 1);
	if(want("M")) {
		if(!r->alloc)
			rs_fail("C06 message buffer inserted into a queue although it is not allocated (t=%g LP %llu)", msg->dest_t,
			    (unsigned long long)msg->dest);
		if(r->queued)
			rs_fail("C06 message inserted twice: already queued for thread %d (t=%g LP %llu)", r->queued - 1, msg->dest_t,
			    (unsigned long long)msg->dest);
	}
	if(in_coast[th] && want("R"))
		rs_fail("C05 event emitted during silent re-execution (t=%g to LP %llu)", msg->dest_t, (unsigned long long)msg->dest);
	unsigned dest_th = (unsigned)(rs_rank() * 8) + lid_to_rid(msg->dest);
	r->queued = (uint8_t)(dest_th + 1);
	qcount[dest_th]++;
	msg_queue_insert(msg);
}

struct lp_msg *vw_msg_queue_extract(void)
{
	int th = TH();
	struct lp_msg *msg = msg_queue_extract();
	if(!msg)
		return NULL;
	struct mrec *r = mr_find(msg, 1);
	if(want("M")) {
		if(!r->alloc)
			rs_fail("C06 extracted a message buffer that is not allocated (use after release), t=%g", msg->dest_t);
		if(r->queued != th + 1)
			rs_fail("C06 extracted a message that was not queued for this thread (queued=%d thread=%d t=%g)", r->queued - 1, th,
			    msg->dest_t);
	}
	r->queued = 0;
	qcount[th]--;
	if(want("G") && msg->dest_t < gvt_last[th])
		rs_fail("C04 thread %d extracted a message with timestamp %g below the GVT %g it was told", th, msg->dest_t, gvt_last[th]);
	uint32_t f = msg->raw_flags;
	if(f & MSG_FLAG_ANTI) {
		if(f >> 2) {
			/* anti-message that came from another rank: did the event it cancels arrive before it? */
			rs_count(C_REMOTE_ANTI_RECV, 1);
			struct lp_ctx *lp = &LPS[msg->dest];
			uint32_t id = f - MSG_FLAG_ANTI;
			int found = 0;
			for(array_count_t i = 0; i < array_count(lp->p.p_msgs) && !found; ++i) {
				struct lp_msg *m = array_get_at(lp->p.p_msgs, i);
				found = is_msg_past(m) && m->raw_flags == (id | MSG_FLAG_PROCESSED) && m->m_seq == msg->m_seq;
			}
			if(!found)
				rs_count(C_EARLY_ANTI, 1);
		} else if(f & MSG_FLAG_PROCESSED)
			rs_count(C_ANTI_AFTER_PROC, 1);
		else
			rs_count(C_ANTI_BEFORE_PROC, 1);
	}
	return msg;
}

struct lp_msg *vw_msg_allocator_alloc(unsigned payload_size)
{
	struct lp_msg *m = msg_allocator_alloc(payload_size);
	struct mrec *r = mr_find(m, 1);
	if(want("M") && r->alloc)
		rs_fail("C06 allocator handed out a buffer that is still in use");
	r->alloc = 1;
	r->queued = 0;
	r->in_hist = 0;
	r->has_h = 0;
	return m;
}

static void note_free(struct lp_msg *m, const char *who)
{
	struct mrec *r = mr_find(m, 1);
	if(want("M")) {
		if(!r->alloc)
			rs_fail("C06 message buffer released twice (%s), t=%g LP %llu", who, m->dest_t, (unsigned long long)m->dest);
		if(r->queued)
			rs_fail("C06 message buffer released while still queued for thread %d (%s), t=%g", r->queued - 1, who, m->dest_t);
		if(r->in_hist)
			rs_fail("C06 message buffer released while still in its LP's processed history (%s), t=%g", who, m->dest_t);
		if(fmpi_buffer_in_flight(m, (char *)m + sizeof *m))
			rs_fail("C06 message buffer released while an MPI send of it is still in flight (%s)", who);
	}
	r->alloc = 0;
}

void vw_msg_allocator_free(struct lp_msg *m)
{
	note_free(m, "msg_allocator_free");
	msg_allocator_free(m);
}

/* remote sends: the sender keeps its copy until the GVT passes it (msg_allocator_free_at_gvt + msg_allocator_on_gvt, the
 * latter releases inside its own translation unit, so the release is mirrored here rather than observed) */
static uint8_t at_gvt_mark[MAXMSG];
void vw_msg_allocator_free_at_gvt(struct lp_msg *m)
{
	struct mrec *r = mr_find(m, 1);
	if(want("M") && !r->alloc)
		rs_fail("C06 remote copy handed to free_at_gvt although it is not allocated, t=%g", m->dest_t);
	at_gvt_mark[r - MR] = (uint8_t)(TH() + 1);
	msg_allocator_free_at_gvt(m);
}

void vw_msg_allocator_on_gvt(simtime_t g)
{
	int th = TH();
	for(unsigned i = 0; i < MAXMSG; ++i)
		if(at_gvt_mark[i] == th + 1 && MR[i].p && MR[i].p->dest_t < g) {
			if(want("M") && fmpi_buffer_in_flight(MR[i].p, (char *)MR[i].p + sizeof(struct lp_msg)))
				rs_fail("C06 sender's copy of a remote message released at GVT %g while its MPI send is still in flight (t=%g)", g,
				    MR[i].p->dest_t);
			at_gvt_mark[i] = 0;
			MR[i].alloc = 0;
		}
	msg_allocator_on_gvt(g);
}

void vw_mpi_remote_msg_send(struct lp_msg *msg, nid_t dest)
{
	if(in_coast[TH()] && want("R"))
		rs_fail("C05 remote event emitted during silent re-execution (t=%g to LP %llu)", msg->dest_t, (unsigned long long)msg->dest);
	rs_count(C_REMOTE_SENT, 1);
	mpi_remote_msg_send(msg, dest);
}

void vw_mpi_remote_anti_msg_send(struct lp_msg *msg, nid_t dest)
{
	rs_count(C_REMOTE_ANTI, 1);
	occ[TH()][O_ANTI]++;
	mpi_remote_anti_msg_send(msg, dest);
}

/* msg_queue_fini(): whatever is still pending beyond the final GVT is discarded at shutdown */
void vw_qfini_msg_allocator_free(struct lp_msg *m)
{
	struct mrec *r = mr_find(m, 1);
	if(want("M")) {
		if(!r->alloc)
			rs_fail("C06 msg_queue_fini released a buffer that is not allocated, t=%g", m->dest_t);
		if(r->queued != TH() + 1)
			rs_fail("C06 msg_queue_fini released a message that was not pending in this thread's queue, t=%g", m->dest_t);
	}
	if(r->queued)
		qcount[r->queued - 1]--;
	r->queued = 0;
	r->alloc = 0;
	msg_allocator_free(m);
}

/* ---- history bookkeeping: which past entries does an LP hold, in order ---- */
static void hist_mark(struct lp_ctx *lp, int on)
{
	for(array_count_t i = 0; i < array_count(lp->p.p_msgs); ++i) {
		struct lp_msg *m = array_get_at(lp->p.p_msgs, i);
		if(is_msg_past(m)) {
			struct mrec *r = mr_find(m, 1);
			r->in_hist = (uint8_t)on;
		}
	}
}

static void commit_check(lp_id_t lp, double t, unsigned type, unsigned size, uint64_t plh, uint64_t h_after, int has_h,
    const char *where)
{
	if(type == LP_INIT)
		return;
	rs_count(C_COMMITTED, 1);
	if(!want("K"))
		return;
	unsigned k = lp_commit_idx[lp]++;
	if(k >= REF.per_lp_n[lp])
		rs_fail("C03 committed an event the sequential execution never delivers: LP %llu commit #%u t=%g type=%u (%s)",
		    (unsigned long long)lp, k, t, type, where);
	const struct rx_event *e = &REF.ev[REF.per_lp[lp][k]];
	if(e->t != t || e->type != type || e->size != size || e->plh != plh)
		rs_fail("C03 committed history is not a prefix of the sequential history: LP %llu commit #%u is (t=%g type=%u size=%u), "
			"sequential delivery #%u is (t=%g type=%u size=%u) (%s)",
		    (unsigned long long)lp, k, t, type, size, k, e->t, e->type, e->size, where);
	if(has_h && h_after != e->h_after)
		rs_fail("C01 committed state differs from the sequential state: LP %llu after commit #%u (t=%g type=%u): %016llx vs %016llx (%s)",
		    (unsigned long long)lp, k, t, type, (unsigned long long)h_after, (unsigned long long)e->h_after, where);
}

void vw_fossil_lp_collect(struct lp_ctx *lp)
{
	array_count_t before = array_count(lp->p.p_msgs);
	/* snapshot what is there: the real code frees entries before we can look at them afterwards */
	struct snap {
		double t;
		unsigned type, size;
		uint64_t plh, h;
		int has_h, past;
	} *sn = malloc(sizeof *sn * (before + 1));
	for(array_count_t i = 0; i < before; ++i) {
		struct lp_msg *m = array_get_at(lp->p.p_msgs, i);
		sn[i].past = is_msg_past(m);
		if(sn[i].past) {
			struct mrec *r = mr_find(m, 1);
			sn[i].t = m->dest_t;
			sn[i].type = m->m_type;
			sn[i].size = m->pl_size;
			sn[i].plh = vm_payload_hash(m->pl, m->pl_size);
			sn[i].h = r->h_after;
			sn[i].has_h = r->has_h;
		}
	}
	hist_mark(lp, 0); /* entries about to be released are legitimately leaving the history */
	fossil_lp_collect(lp);
	array_count_t after = array_count(lp->p.p_msgs);
	hist_mark(lp, 1);
	{
		unsigned n = 0;
		for(array_count_t i = 0; i < after; ++i)
			n += is_msg_past(array_get_at(lp->p.p_msgs, i));
		lp_hist_n[lp - LPS] = n;
	}
	array_count_t removed = before - after;
	if(removed)
		rs_count(C_FOSSIL_RELEASE, 1);
	lp_id_t id = (lp_id_t)(lp - LPS);
	double g = gvt_last[TH()];
	for(array_count_t i = 0; i < removed; ++i) {
		if(!sn[i].past)
			continue;
		if(want("K") && sn[i].t >= g && sn[i].type != LP_INIT)
			rs_fail("C03 fossil collection released an event at or above the GVT: LP %llu t=%g, GVT told to this thread %g",
			    (unsigned long long)id, sn[i].t, g);
		commit_check(id, sn[i].t, sn[i].type, sn[i].size, sn[i].plh, sn[i].h, sn[i].has_h, "fossil collection");
	}
	free(sn);
}

void vw_process_lp_fini(struct lp_ctx *lp)
{
	lp_id_t id = (lp_id_t)(lp - LPS);
	/* entries still held at shutdown with timestamp below the last GVT are committed; the last GVT is the largest value
	 * reported to any thread (a thread that left the loop early was simply not told the final rounds) */
	double g = 0;
	for(int t = 0; t < MAXTH; ++t)
		if(gvt_last[t] > g)
			g = gvt_last[t];
	for(array_count_t i = 0; i < array_count(lp->p.p_msgs); ++i) {
		struct lp_msg *m = array_get_at(lp->p.p_msgs, i);
		if(!is_msg_past(m))
			continue;
		if(m->dest_t >= g && m->m_type != LP_INIT)
			break;
		struct mrec *r = mr_find(m, 1);
		commit_check(id, m->dest_t, m->m_type, m->pl_size, vm_payload_hash(m->pl, m->pl_size), r->h_after, r->has_h,
		    "still held at shutdown");
	}
	hist_mark(lp, 0);
	process_lp_fini(lp);
}

void vw_process_lp_init(struct lp_ctx *lp)
{
	process_lp_init(lp);
	hist_mark(lp, 1);
}

void vw_termination_on_msg_process(struct lp_ctx *lp, simtime_t t)
{
	{
		unsigned n = 0;
		for(array_count_t i = 0; i < array_count(lp->p.p_msgs); ++i)
			n += is_msg_past(array_get_at(lp->p.p_msgs, i));
		lp_hist_n[lp - LPS] = n;
	}
	/* called at the very end of a forward process_msg(): the message is in the history now */
	if(array_count(lp->p.p_msgs)) {
		struct lp_msg *m = array_peek(lp->p.p_msgs);
		if(is_msg_past(m))
			mr_find(m, 1)->in_hist = 1;
	}
	termination_on_msg_process(lp, t);
}

void vw_model_allocator_checkpoint_take(struct mm_state *self, array_count_t ref_i)
{
	rs_count(C_CKPT, 1);
	occ[TH()][O_CKPT]++;
	model_allocator_checkpoint_take(self, ref_i);
}

array_count_t vw_model_allocator_checkpoint_restore(struct mm_state *self, array_count_t ref_i)
{
	int th = TH();
	array_count_t r = model_allocator_checkpoint_restore(self, ref_i);
	if(want("R") && r > ref_i)
		rs_fail("C05 restore returned a checkpoint (%u) beyond the rollback target (%u)", (unsigned)r, (unsigned)ref_i);
	in_coast[th] = 1;
	rs_count(C_ROLLBACK, 1);
	occ[th][O_RB]++;
	return r;
}

void vw_termination_on_lp_rollback(struct lp_ctx *lp, simtime_t t)
{
	int th = TH();
	in_coast[th] = 0;
	lp_id_t id = (lp_id_t)(lp - LPS);
	if(want("G") && t < gvt_last[th])
		rs_fail("C04 rollback below the GVT: LP %llu rolled back by a message with timestamp %g, thread %d was told GVT %g",
		    (unsigned long long)id, t, th, gvt_last[th]);
	{
		unsigned n = 0;
		for(array_count_t i = 0; i < array_count(lp->p.p_msgs); ++i)
			n += is_msg_past(array_get_at(lp->p.p_msgs, i));
		if(lp_hist_n[id] > n)
			occ[th][O_UNDONE] += lp_hist_n[id] - n;
		lp_hist_n[id] = n;
	}
	/* the undone entries left the history (they were re-queued or annihilated) */
	for(unsigned i = 0; i < MAXMSG; ++i)
		if(MR[i].p && MR[i].in_hist && MR[i].alloc && MR[i].p->dest == id)
			MR[i].in_hist = 0;
	hist_mark(lp, 1);
	/* state after restore + coast forward = state right after the last event that remains valid */
	if(want("R")) {
		struct lp_msg *last = NULL;
		for(array_count_t i = array_count(lp->p.p_msgs); i-- > 0;) {
			struct lp_msg *m = array_get_at(lp->p.p_msgs, i);
			if(is_msg_past(m)) {
				last = m;
				break;
			}
		}
		if(last && last->m_type != LP_INIT) {
			struct mrec *r = mr_find(last, 1);
			struct lp_ctx *save = current_lp;
			current_lp = lp;
			uint64_t d = vm_full_digest(lp->state_pointer);
			current_lp = save;
			if(r->has_h && r->h_after != d)
				rs_fail("C05 state after rollback differs: LP %llu should be as after event t=%g type=%u (%016llx) but is %016llx",
				    (unsigned long long)id, last->dest_t, last->m_type, (unsigned long long)r->h_after, (unsigned long long)d);
		}
	}
	termination_on_lp_rollback(lp, t);
}

void vw_stats_take(enum stats_thread_type s, uint_fast64_t c)
{
	st_shadow[TH()][s] += c;
	stats_take(s, c);
}

void vw_stats_on_gvt(simtime_t g)
{
	int th = TH();
	unsigned k = st_nrec[th];
	if(k < MAXREC) {
		st_rec[th][k][0] = st_shadow[th][STATS_MSG_PROCESSED];
		st_rec[th][k][1] = st_shadow[th][STATS_ROLLBACK];
		st_rec[th][k][2] = st_shadow[th][STATS_MSG_ROLLBACK];
		st_rec[th][k][3] = st_shadow[th][STATS_MSG_SILENT];
		st_rec[th][k][4] = st_shadow[th][STATS_CKPT];
		st_rec_anti[th][k] = st_shadow[th][STATS_MSG_ANTI];
		memcpy(occ_rec[th][k], occ[th], sizeof occ[th]);
		occ_gvt[th][k] = g;
		st_nrec[th] = k + 1;
	}
	memset(occ[th], 0, sizeof occ[th]);
	memset(st_shadow[th], 0, sizeof st_shadow[th]);
	stats_on_gvt(g);
}

/* flags word: every atomic on lp_msg.flags must hit an allocated buffer */
static void on_op(int kind, const volatile void *addr, unsigned size, const char *file, int line, uint64_t before, uint64_t after)
{
	(void)line, (void)size;
	if(!strstr(file, "lp/process.c") || kind == 1)
		return;
	struct lp_msg *m = (struct lp_msg *)((char *)(uintptr_t)addr - offsetof(struct lp_msg, flags));
	struct mrec *r = mr_find(m, 0);
	if(!r)
		return;
	if(want("M") && !r->alloc)
		rs_fail("C06 flags of a released message buffer modified (%s:%d, %llx -> %llx)", file, line, (unsigned long long)before,
		    (unsigned long long)after);
	if((after & MSG_FLAG_ANTI) && !(before & MSG_FLAG_ANTI)) {
		rs_count(C_ANTI_LOCAL, 1);
		occ[TH()][O_ANTI]++;
		/* where is the message at the moment its sender cancels it? */
		if(r->queued) {
			rs_count(C_CANCEL_IN_QUEUE, 1);
			if(r->has_h)
				rs_count(C_CANCEL_REQUEUED, 1); /* it had been processed, rolled back and re-queued */
		} else if(before & MSG_FLAG_PROCESSED)
			rs_count(C_CANCEL_PROCESSED, 1);        /* processed (or being processed) by the receiver */
		else
			rs_count(C_CANCEL_IN_HANDS, 1);         /* extracted by the receiver, not yet marked processed */
	}
}

/* ------------------------------------------------------------------ the run */
static void *ext_stopper(void *arg)
{
	(void)arg;
	rs_set_role("external-stop");
	rs_set_rank(0);
	for(int i = 0; i < P_ext_stop; ++i)
		rs_point("external-wait");
	stop_called = 1;
	RootsimStop();
	return NULL;
}

/* ---- S: independent reader of the documented statistics file layout (log/stats.c) + comparison with what happened ---- */
static void check_stats_file(void)
{
	char fn[340];
	snprintf(fn, sizeof fn, "%s.bin", stats_path);
	FILE *f = fopen(fn, "rb");
	if(!f)
		rs_fail("C20 statistics file %s was not produced", fn);
	static unsigned char buf[1 << 20];
	size_t n = fread(buf, 1, sizeof buf, f), o = 0;
	fclose(f);
	if(!rs_param_int("keepstats", 0))
		unlink(fn);
#define NEED(k)                                                                                                        \
	do {                                                                                                           \
		if(o + (k) > n)                                                                                        \
			rs_fail("C20 statistics file truncated at offset %zu (needs %zu more bytes, file has %zu)", o, (size_t)(k), n); \
	} while(0)
	NEED(2);
	uint16_t magic;
	memcpy(&magic, buf + o, 2);
	o += 2;
	if(magic != 61455)
		rs_fail("C20 statistics file: wrong magic number %u", magic);
	int64_t s_cnt;
	NEED(8);
	memcpy(&s_cnt, buf + o, 8);
	o += 8;
	if(s_cnt < 11 || s_cnt > 64)
		rs_fail("C20 statistics file: implausible metric count %lld", (long long)s_cnt);
	int idx[O_N] = {-1, -1, -1, -1, -1, -1};
	static const char *names[O_N] = {"processed messages", "rollbacks", "rolled back messages", "silent messages", "checkpoints",
	    "anti messages"};
	for(int i = 0; i < s_cnt; ++i) {
		NEED(1);
		unsigned l = buf[o++];
		NEED(l);
		for(int k = 0; k < O_N; ++k)
			if(strlen(names[k]) == l && !memcmp(names[k], buf + o, l))
				idx[k] = i;
		o += l;
	}
	for(int k = 0; k < O_N; ++k)
		if(idx[k] < 0)
			rs_fail("C20 statistics file: metric '%s' is not announced in the preamble", names[k]);
	int64_t n_cnt;
	NEED(8);
	memcpy(&n_cnt, buf + o, 8);
	o += 8;
	if(n_cnt != NRANKS)
		rs_fail("C20 statistics file announces %lld nodes, the run had %d", (long long)n_cnt, NRANKS);
	for(int node = 0; node < n_cnt; ++node) {
		uint64_t glob[9];
		NEED(72);
		memcpy(glob, buf + o, 72);
		o += 72;
		uint64_t t_cnt = glob[0];
		if(t_cnt < 1 || t_cnt > 8)
			rs_fail("C20 statistics file: node %d announces %llu threads", node, (unsigned long long)t_cnt);
		int64_t n_siz;
		NEED(8);
		memcpy(&n_siz, buf + o, 8);
		o += 8;
		if(n_siz < 0 || n_siz % 16)
			rs_fail("C20 statistics file: node record array size %lld is not a multiple of 16", (long long)n_siz);
		int64_t nrec = n_siz / 16;
		double lastg = -1;
		for(int64_t k = 0; k < nrec; ++k) {
			double g;
			NEED(16);
			memcpy(&g, buf + o, 8);
			o += 16;
			if(g < lastg)
				rs_fail("C20 statistics file: GVT column decreases (%g after %g) in node record %lld", g, lastg, (long long)k);
			lastg = g;
			if(k < (int64_t)st_nrec[node * 8] && g != occ_gvt[node * 8][k])
				rs_fail("C20 statistics file: node record %lld lists GVT %g, thread 0 was told %g", (long long)k, g,
				    occ_gvt[node * 8][k]);
		}
		for(uint64_t t = 0; t < t_cnt; ++t) {
			int64_t t_siz;
			NEED(8);
			memcpy(&t_siz, buf + o, 8);
			o += 8;
			if(t_siz < 0 || t_siz % (s_cnt * 8))
				rs_fail("C20 statistics file: thread %llu record array size %lld is not a multiple of %lld", (unsigned long long)t,
				    (long long)t_siz, (long long)(s_cnt * 8));
			int64_t trec = t_siz / (s_cnt * 8);
			if(trec != nrec)
				rs_fail("C20 statistics file holds a different number of records for a thread and for its node (difference %lld): "
					"thread %llu %lld, node %lld", (long long)(trec > nrec ? trec - nrec : nrec - trec), (unsigned long long)t,
				    (long long)trec, (long long)nrec);
			int th = node * 8 + (int)t;
			/* only complete rows are dumped: the file holds the records every thread of the node produced; a thread that
			 * finished the last round inside gvt_msg_drain legitimately produced one record less than the others */
			uint64_t common = st_nrec[node * 8];
			for(uint64_t o = 0; o < t_cnt; ++o)
				if(st_nrec[node * 8 + o] < common)
					common = st_nrec[node * 8 + o];
			if((uint64_t)trec != common)
				rs_fail("C20 statistics file holds %lld records for thread %llu, the threads of the node produced %llu complete rows "
					"(this thread %u)", (long long)trec, (unsigned long long)t, (unsigned long long)common, st_nrec[th]);
			if(st_nrec[th] > common + 1)
				rs_fail("C20 thread %llu produced %u records, another thread of the node only %llu: more than the one round that can "
					"end inside the shutdown code", (unsigned long long)t, st_nrec[th], (unsigned long long)common);
			uint64_t cum_fwd = 0, cum_undone = 0;
			for(int64_t k = 0; k < trec; ++k) {
				uint64_t rec[64];
				NEED(s_cnt * 8);
				memcpy(rec, buf + o, (size_t)s_cnt * 8);
				o += (size_t)s_cnt * 8;
				for(int c = 0; c < O_N; ++c)
					if(rec[idx[c]] != occ_rec[th][k][c])
						rs_fail("C20 statistics record %lld of thread %llu reports %llu %s, %llu occurred since its previous record",
						    (long long)k, (unsigned long long)t, (unsigned long long)rec[idx[c]], names[c],
						    (unsigned long long)occ_rec[th][k][c]);
				cum_fwd += rec[idx[O_FWD]];
				cum_undone += rec[idx[O_UNDONE]];
				if(cum_undone > cum_fwd)
					rs_fail("C20 cumulative undone events (%llu) exceed forward executions (%llu) at record %lld of thread %llu",
					    (unsigned long long)cum_undone, (unsigned long long)cum_fwd, (long long)k, (unsigned long long)t);
			}
			rs_count(C_STATS_RECORDS, (uint64_t)trec);
		}
	}
	if(o != n)
		rs_fail("C20 statistics file has %zu bytes of garbage at the end", n - o);
#undef NEED
}

static int rank_rc[NRANKS];
static void *rank_main(void *arg)
{
	int k = (int)(long)arg;
	rs_set_rank(k);
	if(k)
		rs_set_role("rank-main");
	struct simulation_configuration conf = {0};
	conf.lps = VM.n_lps;
	conf.n_threads = P_threads;
	conf.termination_time = P_term;
	conf.gvt_period = P_gvt_large ? 1000000000u : 0;
	conf.log_level = LOG_SILENT;
	conf.prng_seed = 4242;
	conf.ckpt_interval = P_ckpt;
	conf.serial = false;
	if(P_stats)
		snprintf(stats_path, sizeof stats_path, "%s.%d", P_stats, (int)getpid());
	conf.stats_file = P_stats ? stats_path : NULL;
	conf.dispatcher = h_dispatch;
	conf.committed = vm_can_end;
	if(RootsimInit(&conf))
		rs_engine_error("RootsimInit failed");
	if(P_ext_stop >= 0 && k == 0)
		rs_thread_create(ext_stopper, NULL);
	rank_rc[k] = RootsimRun();
	return NULL;
}

static void body(void)
{
	if(vm_parse(P_model, &VM))
		rs_engine_error("bad model '%s'", P_model);
	rx_run(&REF, 4242);
	if(REF.overflow)
		rs_engine_error("model '%s' has too many events for the reference log", P_model);
	if(VM.n_lps < NRANKS)
		rs_engine_error("fewer LPs than ranks");
	fmpi_reset(NRANKS);
	vm_env = &vm_core_env;
	vm_core_env.stop = h_stop;
	vm_core_env.on_fini = h_on_fini;
	int ids[NRANKS];
	for(long k = 1; k < NRANKS; ++k)
		ids[k] = rs_thread_create(rank_main, (void *)k);
	rank_main((void *)0L);
	for(int k = 1; k < NRANKS; ++k)
		rs_thread_join(ids[k]);
	run_returned = 1;
	for(int k = 0; k < NRANKS; ++k)
		if(rank_rc[k])
			rs_fail("RootsimRun returned %d on rank %d", rank_rc[k], k);
	/* ---- T: was it legitimate to return? ---- */
	double gstar = 0;
	for(unsigned t = 0; t < MAXTH; ++t)
		if(gvt_last[t] > gstar)
			gstar = gvt_last[t];
	double tt = P_term == 0 ? SIMTIME_MAX : P_term;
	int by_pred = 1;
	for(unsigned l = 0; l < VM.n_lps; ++l) {
		int ok = REF.pred_init[l];
		for(unsigned k = 0; k < REF.per_lp_n[l] && !ok; ++k) {
			const struct rx_event *e = &REF.ev[REF.per_lp[l][k]];
			if(e->pred_after && e->t < gstar)
				ok = 1;
		}
		by_pred &= ok;
	}
	if(P_negative)
		rs_fail("C07 premature termination: RootsimRun returned although some LP's predicate never holds and no termination time / "
			"RootsimStop applies (largest GVT %g)", gstar);
	if(stop_called)
		rs_count(C_BY_STOP, 1);
	else if(gstar >= tt)
		rs_count(C_BY_TIME, 1);
	else if(by_pred)
		rs_count(C_BY_PRED, 1);
	else if(want("T"))
		rs_fail("C07 premature termination: RootsimRun returned with largest GVT %g, termination time %g, no RootsimStop, and some LP's "
			"predicate never held on a committed state", gstar, tt);
	rs_count(C_T_CHECKED, 1);
	for(unsigned l = 0; l < VM.n_lps; ++l)
		if(fini_seen[l] != 1 && want("L"))
			rs_fail("C08 LP_FINI dispatched %d times for LP %u", fini_seen[l], l);
	/* ---- E: the end state equals the sequential state at the point the predicate first held ---- */
	if(!stop_called && gstar < tt && by_pred && VM.pred == VP_COUNT_STOP && want("E")) {
		for(unsigned l = 0; l < VM.n_lps; ++l) {
			uint64_t expect = REF.first_true[l] == -1 ? REF.h_init[l] : REF.ev[REF.per_lp[l][REF.first_true[l]]].h_after;
			if(fini_digest[l] != expect)
				rs_fail("C01 end state differs from the sequential execution: LP %u final state %016llx, sequential state at the point "
					"its predicate first held %016llx",
				    l, (unsigned long long)fini_digest[l], (unsigned long long)expect);
			rs_obs(fini_digest[l]);
		}
		rs_count(C_E_CHECKED, 1);
	}
	/* run ended because nothing is left (GVT = infinity): every event is committed, the end state is the sequential one */
	if(!stop_called && gstar == SIMTIME_MAX && want("E")) {
		for(unsigned l = 0; l < VM.n_lps; ++l) {
			if(fini_digest[l] != REF.h_final[l])
				rs_fail("C01 end state differs from the sequential execution: LP %u final state %016llx, sequential final state %016llx "
					"(run ended by exhaustion)",
				    l, (unsigned long long)fini_digest[l], (unsigned long long)REF.h_final[l]);
			if(want("K") && lp_commit_idx[l] != REF.per_lp_n[l])
				rs_fail("C03 run ended by exhaustion but LP %u committed %u of its %u sequential events", l, lp_commit_idx[l],
				    REF.per_lp_n[l]);
		}
		rs_count(C_E_CHECKED, 1);
	}
	for(unsigned l = 0; l < VM.n_lps; ++l)
		rs_obs(lp_commit_idx[l]);
	if(P_stats && want("S"))
		check_stats_file();
}

/* context for deadlock / livelock verdicts: who is already in the shutdown code, what is still queued */
static void describe(char *buf, size_t cap)
{
	int drain = 0, queued = 0;
	double mn = INFINITY;
	for(int t = 0; t < MAXTH; ++t)
		drain += left_loop[t];
	for(unsigned i = 0; i < MAXMSG; ++i)
		if(MR[i].p && MR[i].queued && MR[i].alloc) {
			queued++;
			if(MR[i].p->dest_t < mn)
				mn = MR[i].p->dest_t;
		}
	if(queued)
		snprintf(buf, cap, "threads_in_shutdown=%d queued=%s min_queued_t=%g stop=%d", drain, "yes", mn, stop_called);
	else
		snprintf(buf, cap, "threads_in_shutdown=%d queued=no stop=%d", drain, stop_called);
}

static int fine(const char *file)
{
	if(!strcmp(P_fine, "none"))
		return 0;
	if(strstr(P_fine, "gvt") && (strstr(file, "gvt/gvt.c") || strstr(file, "gvt/termination") || strstr(file, "parallel/parallel.c")))
		return 1;
	if(strstr(P_fine, "sync") && strstr(file, "core/sync.c"))
		return 1;
	if(strstr(P_fine, "flags") && strstr(file, "lp/process.c"))
		return 1;
	if(strstr(P_fine, "queue") && strstr(file, "datatypes/msg_queue.c"))
		return 1;
	return 0;
}

static void configure(int argc, char **argv)
{
	(void)argc, (void)argv;
	P_model = rs_param("m", "L2_I2,2_R2,2,2_P0_K3_M0_G0_H5_C2_S0");
	P_threads = (unsigned)rs_param_int("T", 2);
	P_ckpt = (unsigned)rs_param_int("ck", 1);
	P_gvt_large = (unsigned)rs_param_int("gp", 0);
	P_term = (double)rs_param_int("tt", 0);
	P_fine = rs_param("fine", "none");
	P_oracle = rs_param("oracle", "all");
	P_ext_stop = (int)rs_param_int("xstop", -1);
	P_stats = rs_param("stats", NULL);
	P_negative = (int)rs_param_int("neg", 0);
	P_prompt = rs_param_int("prompt", 0);
	P_stopprompt = rs_param_int("stopprompt", 0);
}

static const struct rs_harness H = {
    .name = "h_run",
    .configure = configure,
    .body = body,
    .fine_file = fine,
    .on_op = on_op,
    .describe = describe,
    .on_quiesce = fmpi_release_held,
    .counter_names = {[C_ROLLBACK] = "rollbacks", [C_ANTI_LOCAL] = "anti_messages", [C_ANTI_BEFORE_PROC] = "anti_extracted_unprocessed",
	[C_ANTI_AFTER_PROC] = "anti_extracted_processed", [C_SILENT] = "silent_executions", [C_FOSSIL_RELEASE] = "fossil_releases",
	[C_GVT_ROUNDS] = "gvt_reports", [C_COMMITTED] = "committed_events", [C_CKPT] = "checkpoints", [C_EVENTS] = "forward_events",
	[C_BY_PRED] = "ended_by_predicate", [C_BY_TIME] = "ended_by_time", [C_BY_STOP] = "ended_by_stop",
	[C_CANCEL_IN_QUEUE] = "cancelled_while_queued", [C_E_CHECKED] = "end_state_compared", [C_T_CHECKED] = "termination_checked",
	[C_NEG_QUIESCENT] = "negative_quiescent", [C_REMOTE_SENT] = "remote_events_sent", [C_REMOTE_ANTI] = "remote_anti_sent",
	[C_EARLY_ANTI] = "early_remote_anti", [C_CANCEL_IN_HANDS] = "cancelled_extracted_unprocessed",
	[C_CANCEL_REQUEUED] = "cancelled_after_requeue", [C_RNG_CHECKED] = "rng_stream_checked", [C_STATS_RECORDS] = "stats_records_compared", [C_CANCEL_PROCESSED] = "cancelled_after_processing", [C_REMOTE_ANTI_RECV] = "remote_anti_extracted", [40] = "mpi_invisible", [41] = "mpi_reordered", [42] = "mpi_collective_delayed", [43] = "mpi_held_back"},
};

int main(int argc, char **argv)
{
	return rs_main(argc, argv, &H);
}
