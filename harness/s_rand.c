/* s_rand - C18: the numerical library (lib/random/random.c) called on generator states crafted by
 * inverting the xoshiro256** output function so that the next three raw outputs are any chosen triple
 * from a boundary alphabet B.  Oracle: the documented ranges, finiteness, non-negativity; a second LP's
 * generator is byte-compared around every call; UBSan when built with it. */
#include "sx.h"
#include <ROOT-Sim.h>
#include <core/core.h>
#include <lib/random/random.h>
#include <lib/random/xoroshiro.h>
#include <lp/lp.h>
#include <log/log.h>
#include <math.h>

struct simulation_configuration global_config;
__thread struct lp_ctx *current_lp;
struct lp_ctx *lps;
void vlogger(enum log_level level, char *file, unsigned line, const char *fmt, ...)
{
	(void)level, (void)file, (void)line, (void)fmt;
}

static struct lp_ctx LP[2];
static struct rng_ctx RNG[2], OTHER_COPY;

#include "rngcraft.h"

#define MAXB 700
static uint64_t B[MAXB];
static int NB;
static void addB(uint64_t v)
{
	for(int i = 0; i < NB; ++i)
		if(B[i] == v)
			return;
	if(NB < MAXB)
		B[NB++] = v;
}

static char ctx[300];

static void arm(uint64_t o1, uint64_t o2, uint64_t o3)
{
	craft(RNG[0].state, o1, o2, o3);
	OTHER_COPY = RNG[1];
	current_lp = &LP[0];
}

static void after(const char *fn)
{
	if(memcmp(&OTHER_COPY, &RNG[1], sizeof OTHER_COPY)) {
		char sig[120];
		snprintf(sig, sizeof sig, "%s advanced another LP's generator", fn);
		sx_violation(sig, "%s", ctx);
		RNG[1] = OTHER_COPY;
	}
}

static void bad(const char *fn, const char *what, double got)
{
	char sig[160];
	snprintf(sig, sizeof sig, "%s: %s", fn, what);
	sx_violation(sig, "%s -> %.17g", ctx, got);
}

int main(int argc, char **argv)
{
	int level = argc > 1 ? atoi(argv[1]) : 0; /* 0 quick, 1 thorough */
	sx_begin();
	sx_watchdog("s_rand", ctx, 120);
	LP[0].rng_ctx = &RNG[0];
	LP[1].rng_ctx = &RNG[1];
	global_config.prng_seed = 12345;
	random_lib_lp_init(1, &RNG[1]);
	/* boundary alphabet */
	addB(0), addB(1), addB(~0ULL);
	for(int k = 1; k < 64; ++k) {
		addB(1ULL << k);
		addB((1ULL << k) + 1);
		addB((1ULL << k) - 1);
		/* all-ones mantissa under each leading-zero count: the largest double below the next power of two */
		addB(((1ULL << k) - 1) | (1ULL << k));
		addB(~0ULL >> (63 - k));
	}
	/* raw values mapping to 0.5 -/+ 1 ulp and 1 - 1 ulp */
	addB(0x8000000000000000ULL), addB(0x7fffffffffffffffULL), addB(0x8000000000000800ULL), addB(0x8000000000000400ULL);
	addB(0xfffffffffffff800ULL), addB(0xfffffffffffffc00ULL), addB(0x4000000000000000ULL), addB(0xc000000000000000ULL);
	/* a few well-mixed values */
	for(uint64_t x = 0x243f6a8885a308d3ULL, i = 0; i < 8; ++i, x = x * 6364136223846793005ULL + 1442695040888963407ULL)
		addB(x);
	int nb2 = level ? NB : (NB < 120 ? NB : 120); /* alphabet used for pairs */
	int nb3 = level ? (NB < 160 ? NB : 160) : 48; /* alphabet used for triples */
	/* put the most delicate values first so that the reduced alphabets contain them */
	{
		uint64_t first[] = {0, 1, ~0ULL, 2, 3, 0x8000000000000000ULL, 0x7fffffffffffffffULL, 0xfffffffffffff800ULL,
		    0xc000000000000000ULL, 0x4000000000000000ULL, 1ULL << 11, (1ULL << 11) - 1, 1ULL << 12, 1ULL << 52, 1ULL << 53,
		    (1ULL << 53) - 1, 1ULL << 63 | 1};
		int nf = (int)(sizeof first / sizeof *first);
		uint64_t tmp[MAXB];
		int n = 0;
		for(int i = 0; i < nf; ++i)
			tmp[n++] = first[i];
		for(int i = 0; i < NB; ++i) {
			int dup = 0;
			for(int j = 0; j < nf; ++j)
				dup |= B[i] == first[j];
			if(!dup)
				tmp[n++] = B[i];
		}
		memcpy(B, tmp, (size_t)n * sizeof *B);
		NB = n;
	}

	/* Random(): every raw output of B */
	for(int i = 0; i < NB; ++i) {
		snprintf(ctx, sizeof ctx, "Random() raw=0x%llx", (unsigned long long)B[i]);
		arm(B[i], 7, 7);
		double r = Random();
		after("Random");
		sx_evals++, sx_tick();
		sx_nontrivial++;
		if(!(r >= 0.0 && r < 1.0))
			bad("Random", "result outside [0,1)", r);
	}
	sx_sample("Random() on raw output 0x%llx, 0x%llx, 0x%llx ...", (unsigned long long)B[1], (unsigned long long)B[5],
	    (unsigned long long)B[20]);
	/* RandomRange(min,max) */
	static const int grid[] = {0, 1, 2, 3, 7, 100, 32767, 65536, 1000000, 0x3fffffff, 0x7ffffffe};
	int ng = (int)(sizeof grid / sizeof *grid);
	for(int i = 0; i < NB; ++i)
		for(int a = 0; a < ng; ++a)
			for(int b = a; b < ng; ++b) {
				int mn = grid[a], mx = grid[b];
				if((long long)mx - mn + 1 > 0x7fffffffLL)
					continue; /* max - min + 1 must be representable */
				snprintf(ctx, sizeof ctx, "RandomRange(%d,%d) raw=0x%llx", mn, mx, (unsigned long long)B[i]);
				arm(B[i], 7, 7);
				int r = RandomRange(mn, mx);
				after("RandomRange");
				sx_evals++, sx_tick();
				if(r < mn || r > mx)
					bad("RandomRange", "result outside [min,max]", r);
			}
	sx_sample("RandomRange(min,max) for min<=max in {0,1,2,3,7,100,32767,65536,1e6,2^30-1,2^31-2} x raw outputs of B");
	/* RandomRangeNonUniform(x,min,max): two draws */
	static const int xs[] = {0, 1, 5, 1000, 0x7ffffffe};
	for(int i = 0; i < nb2; ++i)
		for(int j = 0; j < nb2; ++j)
			for(unsigned xi = 0; xi < sizeof xs / sizeof *xs; ++xi)
				for(int a = 0; a < ng; a += 2)
					for(int b = a; b < ng; b += 3) {
						int mn = grid[a], mx = grid[b];
						if((long long)mx - mn + 1 > 0x7fffffffLL)
							continue;
						snprintf(ctx, sizeof ctx, "RandomRangeNonUniform(%d,%d,%d) raw=0x%llx,0x%llx", xs[xi], mn, mx,
						    (unsigned long long)B[i], (unsigned long long)B[j]);
						arm(B[i], B[j], 7);
						int r = RandomRangeNonUniform(xs[xi], mn, mx);
						after("RandomRangeNonUniform");
						sx_evals++, sx_tick();
						if(r < mn || r > mx)
							bad("RandomRangeNonUniform", "result outside [min,max]", r);
					}
	/* Poisson / Expent / Normal */
	for(int i = 0; i < NB; ++i) {
		snprintf(ctx, sizeof ctx, "Poisson() raw=0x%llx", (unsigned long long)B[i]);
		arm(B[i], 7, 7);
		double r = Poisson();
		after("Poisson");
		sx_evals++, sx_tick();
		if(!(isfinite(r) && r >= 0))
			bad("Poisson", "not finite and non-negative", r);
		arm(B[i], 7, 7);
		r = Expent(3.5);
		after("Expent");
		if(!(isfinite(r) && r >= 0))
			bad("Expent", "not finite and non-negative", r);
	}
	for(int i = 0; i < nb2; ++i)
		for(int j = 0; j < nb2; ++j) {
			snprintf(ctx, sizeof ctx, "Normal() raw=0x%llx,0x%llx", (unsigned long long)B[i], (unsigned long long)B[j]);
			arm(B[i], B[j], 0x9e3779b97f4a7c15ULL);
			double r = Normal();
			after("Normal");
			sx_evals++, sx_tick();
			if(!isfinite(r))
				bad("Normal", "not finite", r);
		}
	/* Gamma(ia): direct method draws ia values, rejection method three per round */
	static const unsigned ias[] = {0, 1, 2, 3, 4, 5, 6, 7, 100};
	for(unsigned q = 0; q < sizeof ias / sizeof *ias; ++q)
		for(int i = 0; i < nb3; ++i)
			for(int j = 0; j < nb3; ++j)
				for(int k = 0; k < nb3; ++k) {
					if(ias[q] < 1 && (i || j || k))
						continue;
					if(ias[q] < 2 && (j || k))
						continue;
					if(ias[q] < 3 && k)
						continue;
					snprintf(ctx, sizeof ctx, "Gamma(%u) raw=0x%llx,0x%llx,0x%llx", ias[q], (unsigned long long)B[i],
					    (unsigned long long)B[j], (unsigned long long)B[k]);
					arm(B[i], B[j], B[k]);
					double r = Gamma(ias[q]);
					after("Gamma");
					sx_evals++, sx_tick();
					sx_nontrivial += (i < 3 || j < 3);
					if(!(isfinite(r) && r >= 0))
						bad("Gamma", "not finite and non-negative", r);
				}
	sx_sample("Gamma(ia) for ia in {0..7,100} x raw triples of B^3 (|B|=%d used), e.g. %s", nb3, ctx);
	/* Zipf(skew, limit): two draws per round */
	static const double skews[] = {1.0, 1.5, 4.0};
	static const unsigned limits[] = {1, 2, 1000};
	for(int i = 0; i < nb2; ++i)
		for(int j = 0; j < nb2; ++j)
			for(int s = 0; s < 3; ++s)
				for(int l = 0; l < 3; ++l) {
					snprintf(ctx, sizeof ctx, "Zipf(%g,%u) raw=0x%llx,0x%llx", skews[s], limits[l], (unsigned long long)B[i],
					    (unsigned long long)B[j]);
					arm(B[i], B[j], 0x9e3779b97f4a7c15ULL);
					unsigned r = Zipf(skews[s], limits[l]);
					after("Zipf");
					sx_evals++, sx_tick();
					if(r < 1 || r > limits[l])
						bad("Zipf", "result outside [1,limit]", r);
				}
	sx_sample("Zipf(skew,limit) skew in {1,1.5,4} limit in {1,2,1000} x raw pairs of B^2 (|B|=%d used)", nb2);
	/* the calling LP's own generator does advance, and only by the documented number of draws for the simple calls */
	{
		arm(5, 6, 7);
		struct rng_ctx before = RNG[0];
		(void)RandomU64();
		uint64_t chk[4];
		memcpy(chk, before.state, sizeof chk);
		(void)random_u64(chk);
		if(memcmp(chk, RNG[0].state, sizeof chk))
			sx_violation("RandomU64 does not advance the calling LP's generator by one step", "state mismatch");
	}
	char extra[120];
	snprintf(extra, sizeof extra, "\"alphabet\": %d, \"pairs_alphabet\": %d, \"triples_alphabet\": %d", NB, nb2, nb3);
	alarm(0);
	return sx_report("s_rand", 1, extra);
}
