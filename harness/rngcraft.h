/* rngcraft.h - crafting xoshiro256** states with chosen next outputs (shared by s_rand and s_topo) */
#ifndef RNGCRAFT_H
#define RNGCRAFT_H
#include <stdint.h>
#include <stdio.h>
#include <stdlib.h>
#include <lib/random/xoroshiro.h>
static uint64_t rotr64(uint64_t x, int k)
{
	return (x >> k) | (x << (64 - k));
}
#define INV9 0x8e38e38e38e38e39ULL
#define INV5 0xcccccccccccccccdULL
/* state word s[1] that makes the next raw output equal to out */
static uint64_t s1_for(uint64_t out)
{
	return rotr64(out * INV9, 7) * INV5;
}

/* craft a state whose next three outputs are o1, o2, o3 (see DESIGN.md: linear state update) */
static void craft(uint64_t st[4], uint64_t o1, uint64_t o2, uint64_t o3)
{
	uint64_t s0 = 0x9e3779b97f4a7c15ULL, s1 = s1_for(o1);
	uint64_t s1p = s1_for(o2);
	uint64_t s2 = s1 ^ s0 ^ s1p; /* s1' = s1 ^ s2 ^ s0 */
	uint64_t s2p = (s2 ^ s0) ^ (s1 << 17);
	uint64_t s1pp = s1_for(o3);
	uint64_t s0p = s1pp ^ s1p ^ s2p; /* s1'' = s1' ^ s2' ^ s0' */
	uint64_t s3 = s0p ^ s0 ^ s1;     /* s0' = s0 ^ s3 ^ s1 */
	st[0] = s0, st[1] = s1, st[2] = s2, st[3] = s3;
	uint64_t chk[4] = {s0, s1, s2, s3};
	uint64_t a = random_u64(chk), b = random_u64(chk), c = random_u64(chk);
	if(a != o1 || b != o2 || c != o3) {
		fprintf(stderr, "s_rand: state inversion broken (engine error)\n");
		exit(2);
	}
}

#endif
