/* s_ckpt - C05: checkpoint / restore / coast-forward of the real rollbackable allocator.
 * A history is a sequence of events, each performing one allocator operation (as an event handler
 * would).  Checkpoints are taken as lp/process.c does (forced after the init event, then every c
 * events, reference = number of events processed).  For every history, interval, rollback target q
 * and second target q2: restore (real model_allocator_checkpoint_restore), re-execute the events
 * between the restored checkpoint and q (coast forward), compare with the shadow snapshot of
 * position q; re-execute the undone suffix forward and compare every position with the first run
 * (same addresses, same bytes); roll back a second time and compare again. */
#include "ashadow.h"

enum { OP_M, OP_F, OP_R, OP_W };
struct op {
	uint8_t kind, j, si;
};
static size_t sizes[8];
static int nsizes;
#define MAXN 10
static struct as_shadow snapS[MAXN + 1]; /* snapS[k]: state after k events */
static int snapNextId[MAXN + 1];
static int snapCreated[MAXN + 1]; /* arenas created when position k was first reached */
static uint64_t moved_cases;

static void shadow_free(struct as_shadow *s)
{
	for(int i = 0; i < s->n; ++i)
		free(s->b[i].copy);
	s->n = 0;
}
static void shadow_copy(struct as_shadow *d, const struct as_shadow *s)
{
	*d = *s;
	for(int i = 0; i < s->n; ++i) {
		d->b[i].copy = malloc(s->b[i].req);
		memcpy(d->b[i].copy, s->b[i].copy, s->b[i].req);
	}
}

static int apply(struct op o, unsigned salt)
{
	switch(o.kind) {
		case OP_M:
			return as_malloc(sizes[o.si], 0);
		case OP_F:
			return as_free(o.j);
		case OP_R:
			return as_realloc(o.j, sizes[o.si]);
		default:
			return as_write(o.j, salt);
	}
}

/* Is the live state equal to snapshot k?  Blocks that already existed at the restored checkpoint (born before
 * position minborn) must be at the same address: restored memory holds pointers to them.  Blocks (re)allocated by
 * re-execution are compared by identity, size and content; their address may legitimately differ from the first run
 * when an arena that was created after the restored checkpoint is still around (DESIGN.md, C05 notes). */
static int same_as_snapshot(int k, int minborn, const char *when)
{
	const struct as_shadow *s = &snapS[k];
	if(SHD.n != s->n) {
		sx_violation("live block set differs after rollback", "%s position %d: %d blocks, first run had %d; ops: %s", when, k,
		    SHD.n, s->n, as_trace);
		return 0;
	}
	for(int i = 0; i < s->n; ++i) {
		if(SHD.b[i].id != s->b[i].id || SHD.b[i].req != s->b[i].req ||
		    (s->b[i].born < minborn && SHD.b[i].p != s->b[i].p)) {
			sx_violation("live block set differs after rollback",
			    "%s position %d: block %d is #%d [%p,+%zu), first run #%d [%p,+%zu) born at %d; ops: %s", when, k, i, SHD.b[i].id,
			    (void *)SHD.b[i].p, SHD.b[i].req, s->b[i].id, (void *)s->b[i].p, s->b[i].req, s->b[i].born, as_trace);
			return 0;
		}
		if(memcmp(SHD.b[i].p, s->b[i].copy, s->b[i].req)) {
			size_t x = 0;
			while(SHD.b[i].p[x] == s->b[i].copy[x])
				++x;
			sx_violation("block content differs after rollback", "%s position %d: block #%d byte %zu is %02x, first run %02x; ops: %s",
			    when, k, s->b[i].id, x, SHD.b[i].p[x], s->b[i].copy[x], as_trace);
			return 0;
		}
	}
	return as_check_ckpt_size();
}

/* The state handed on after restore + coast forward is the state after position q of the first run, addresses included:
 * the blocks allocated by the still-valid events r..q-1 (born in [r, q)) are the same memory the first run gave them - an
 * event processed before the rollback may have sent a pointer to them to its own LP.  Reported separately from the checks
 * above so that the one way the unchanged allocator breaks this (DESIGN.md 5, F-C05-coast-forward-moves-blocks) can be told
 * from any other. */
static void same_addresses_after_coast_forward(int q, int r)
{
	const struct as_shadow *s = &snapS[q];
	for(int i = 0; i < s->n && i < SHD.n; ++i) {
		if(s->b[i].born < r || SHD.b[i].p == s->b[i].p)
			continue;
		moved_cases++;
		/* which arena serves it now: one that exists only since after the restored checkpoint? */
		int slot = (int)(((const char *)SHD.b[i].p - (const char *)as_pool) / (ptrdiff_t)sizeof(struct buddy_state));
		int late = 0;
		for(int k = snapCreated[r]; k < as_created; ++k)
			late |= as_slot_order[k] == slot;
		if(late)
			sx_violation("a block allocated by a still-valid event has another address after restore + coast forward: the silent "
				     "re-execution was served by an arena created after the restored checkpoint",
			    "rollback to position %d from checkpoint %d: block #%d is at %p, the first run had it at %p; ops: %s", q, r, s->b[i].id,
			    (void *)SHD.b[i].p, (void *)s->b[i].p, as_trace);
		else
			sx_violation("a block allocated by a still-valid event has another address after restore + coast forward",
			    "rollback to position %d from checkpoint %d: block #%d is at %p, the first run had it at %p; ops: %s", q, r, s->b[i].id,
			    (void *)SHD.b[i].p, (void *)s->b[i].p, as_trace);
		return;
	}
}

/* execute event i forward (first run or re-execution), checkpoint per interval */
static unsigned ck_rem;
static int last_restored;
static int forward_event(const struct op *ev, int i, unsigned c, int first_run)
{
	as_pos = i;
	if(!apply(ev[i], (unsigned)i * 7 + 1) || as_refused)
		return 0;
	if(!first_run && !same_as_snapshot(i + 1, last_restored, "re-executing the undone suffix reached"))
		return 0;
	/* the snapshot of this position is what later rollbacks are compared with */
	shadow_free(&snapS[i + 1]);
	shadow_copy(&snapS[i + 1], &SHD);
	snapNextId[i + 1] = as_next_id;
	if(first_run)
		snapCreated[i + 1] = as_created;
	if(i == 0 || ++ck_rem >= c) {
		ck_rem = 0;
		as_tr("K%d ", i + 1);
		model_allocator_checkpoint_take(&as_lp.mm_state, (array_count_t)(i + 1));
	}
	return 1;
}

/* newest checkpoint position <= q, per the interval schedule actually taken */
static int ck_positions[MAXN + 2], nckp;

static int first_rollback;
static int rollback_to(const struct op *ev, int q, const char *label)
{
	as_tr("|RB%d ", q);
	array_count_t r = model_allocator_checkpoint_restore(&as_lp.mm_state, (array_count_t)q);
	/* any checkpoint at or before the target is a correct starting point (the newest one is merely the cheapest) */
	int is_ckpt = 0;
	for(int i = 0; i < nckp; ++i)
		is_ckpt |= ck_positions[i] == (int)r;
	if((int)r > q || !is_ckpt) {
		sx_violation("restore returned a reference that is not a checkpoint at or before the target",
		    "target %d: got reference %u; ops: %s", q, (unsigned)r, as_trace);
		return 0;
	}
	/* checkpoints after r are gone */
	int k = 0;
	for(int i = 0; i < nckp; ++i)
		if(ck_positions[i] <= (int)r)
			ck_positions[k++] = ck_positions[i];
	nckp = k;
	shadow_free(&SHD);
	shadow_copy(&SHD, &snapS[r]);
	as_next_id = snapNextId[r];
	last_restored = (int)r;
	/* right after the restore everything is literally as it was at the checkpoint, addresses included */
	if(!same_as_snapshot((int)r, 1 << 30, label))
		return 0;
	/* coast forward: silently re-execute events r .. q-1 */
	for(int i = (int)r; i < q; ++i) {
		as_tr("~");
		as_pos = i;
		if(!apply(ev[i], (unsigned)i * 7 + 1) || as_refused)
			return 0;
	}
	if(!same_as_snapshot(q, (int)r, label))
		return 0;
	if(first_rollback)
		same_addresses_after_coast_forward(q, (int)r);
	shadow_free(&snapS[q]);
	shadow_copy(&snapS[q], &SHD);
	return 1;
}

static void scenario(const struct op *ev, int n, unsigned c, int q, int q2)
{
	as_reset();
	ck_rem = 0;
	nckp = 0;
	sx_evals++;
	for(int i = 0; i < n; ++i) {
		unsigned before = ck_rem;
		if(!forward_event(ev, i, c, 1))
			return;
		if(i == 0 || (before + 1 >= c))
			ck_positions[nckp++] = i + 1;
	}
	if(as_refused)
		return;
	first_rollback = 1;
	int okrb = rollback_to(ev, q, "rollback reached");
	first_rollback = 0;
	if(!okrb)
		return;
	sx_transitions++;
	int arenas_grown = (int)array_count(as_lp.mm_state.buddies) > 1;
	int between = 1;
	for(int i = 0; i < nckp; ++i)
		between &= ck_positions[i] != q;
	if(between || arenas_grown)
		sx_nontrivial++;
	/* re-execute the undone suffix */
	ck_rem = 0; /* countdown restarts; positions of new checkpoints are recorded below */
	for(int i = q; i < n; ++i) {
		unsigned before = ck_rem;
		if(!forward_event(ev, i, c, 0))
			return;
		if(before + 1 >= c)
			ck_positions[nckp++] = i + 1;
	}
	if(q2 > 0) {
		if(!rollback_to(ev, q2, "second rollback reached"))
			return;
		sx_transitions++;
	}
	if(sx_evals == 11 || sx_evals == 5003 || sx_evals == 300007)
		sx_sample("interval %u: %s", c, as_trace);
}

static unsigned shard_i, shard_n = 1;
static int N;
static unsigned maxc = 3;

static void enumerate(struct op *ev, int depth)
{
	if(sx_stop())
		return;
	if(depth == N) {
		for(unsigned c = 1; c <= maxc; ++c)
			for(int q = 1; q < N; ++q)
				for(int q2 = 0; q2 <= N - 1; q2 += (q2 == 0 ? 1 : 1)) {
					if((sx_evals & 255) == 0)
						sx_watchdog("s_ckpt", as_trace, 20);
					scenario(ev, N, c, q, q2);
				}
		return;
	}
	/* the operations enabled at this depth depend on the shadow state after the prefix: rebuild it */
	as_reset();
	for(int i = 0; i < depth; ++i) {
		as_pos = i;
		if(!apply(ev[i], (unsigned)i * 7 + 1) || as_refused)
			return;
	}
	int live = SHD.n;
	struct op ops[128];
	int k = 0;
	for(int s = 0; s < nsizes; ++s)
		ops[k++] = (struct op){OP_M, 0, (uint8_t)s};
	for(int j = 0; j < live; ++j) {
		ops[k++] = (struct op){OP_F, (uint8_t)j, 0};
		ops[k++] = (struct op){OP_W, (uint8_t)j, 0};
		for(int s = 0; s < nsizes; ++s)
			ops[k++] = (struct op){OP_R, (uint8_t)j, (uint8_t)s};
	}
	for(int x = 0; x < k; ++x) {
		if(depth == 0 && (unsigned)x % shard_n != shard_i)
			continue;
		ev[depth] = ops[x];
		enumerate(ev, depth + 1);
	}
}

int main(int argc, char **argv)
{
	N = argc > 1 ? atoi(argv[1]) : 4;
	shard_i = argc > 2 ? (unsigned)atoi(argv[2]) : 0;
	shard_n = argc > 3 ? (unsigned)atoi(argv[3]) : 1;
	int perm = argc > 4 ? atoi(argv[4]) : 0;
	as_max_arenas = argc > 5 ? atoi(argv[5]) : 3;
	maxc = argc > 6 ? (unsigned)atoi(argv[6]) : 3;
	static const int perms[6][3] = {{0, 1, 2}, {2, 1, 0}, {1, 0, 2}, {1, 2, 0}, {0, 2, 1}, {2, 0, 1}};
	for(int i = 0; i < 3; ++i)
		as_slot_order[i] = perms[perm % 6][i];
	if(N > MAXN)
		return 2;
	sizes[nsizes++] = 1;
	sizes[nsizes++] = 2 * BLK_SZ;
	sizes[nsizes++] = ARENA_SZ / 2;
	sizes[nsizes++] = ARENA_SZ;
	sx_begin();
	struct op ev[MAXN];
	enumerate(ev, 0);
	char extra[300];
	snprintf(extra, sizeof extra, "\"events\": %d, \"arena_bytes\": %u, \"block_bytes\": %u, \"max_arenas\": %d, \"placement\": %d, "
				      "\"intervals\": %u, \"shard\": \"%u/%u\", \"coast_forward_moved_blocks\": %llu",
	    N, ARENA_SZ, BLK_SZ, as_max_arenas, perm, maxc, shard_i, shard_n, (unsigned long long)moved_cases);
	return sx_report("s_ckpt", 1, extra);
}
