/* s_part - C14: the real lp_global_init()/lp_init()/lp_fini() of lp/lp.c and the routing macros
 * lid_to_nid/lid_to_rid of lp/lp.h for every (LPs, ranks, threads) triple of a bounded domain.
 * Everything lp_init() calls per LP is stubbed so that the harness sees which (rank, thread)
 * initialises / finalises which LP. */
#include "sx.h"
#include <ROOT-Sim.h>
#include <core/core.h>
#include <lp/lp.h>
#include <log/log.h>
#include <signal.h>
#include <unistd.h>

struct simulation_configuration global_config;
void vlogger(enum log_level level, char *file, unsigned line, const char *fmt, ...)
{
	(void)level, (void)file, (void)line, (void)fmt;
}

#define MAXL (1u << 21)
static int init_rank[MAXL], init_thr[MAXL], init_cnt[MAXL], fini_cnt[MAXL], fini_rank[MAXL], fini_thr[MAXL];
static uint64_t curL;
static unsigned curT;
static int curR;

void model_allocator_lp_init(struct mm_state *self) { (void)self; }
void model_allocator_lp_fini(struct mm_state *self) { (void)self; }
void *rs_malloc(size_t s) { (void)s; return NULL; }
void random_lib_lp_init(lp_id_t lp_id, struct rng_ctx *rng_ctx) { (void)lp_id, (void)rng_ctx; }
void auto_ckpt_lp_init(struct auto_ckpt *a) { (void)a; }
void termination_lp_init(struct lp_ctx *lp) { (void)lp; }
void process_lp_init(struct lp_ctx *lp)
{
	uint64_t id = (uint64_t)(lp - lps);
	if(id < MAXL) {
		init_cnt[id]++;
		init_rank[id] = nid;
		init_thr[id] = (int)rid;
	}
}
void process_lp_fini(struct lp_ctx *lp)
{
	uint64_t id = (uint64_t)(lp - lps);
	if(id < MAXL) {
		fini_cnt[id]++;
		fini_rank[id] = nid;
		fini_thr[id] = (int)rid;
	}
}

static void on_alarm(int s)
{
	(void)s;
	char d[200];
	snprintf(d, sizeof d, "LPs=%llu ranks=%d threads=%u", (unsigned long long)curL, curR, curT);
	sx_violation("partitioning did not return within 20 s", "%s", d);
	sx_report("s_part", 0, NULL);
	_exit(1);
}

static void viol(const char *sig, const char *more)
{
	sx_violation(sig, "LPs=%llu ranks=%d threads=%u %s", (unsigned long long)curL, curR, curT, more);
}

/* full = also run lp_init/lp_fini for every thread */
static void check_triple(uint64_t L, int R, unsigned T, int full)
{
	char more[200];
	curL = L, curR = R, curT = T;
	alarm(20);
	sx_evals++;
	if(L % (uint64_t)R || (L / (uint64_t)R) % T)
		sx_nontrivial++;
	for(uint64_t i = 0; i < L && i < MAXL; ++i)
		init_cnt[i] = fini_cnt[i] = 0;
	uint64_t expect_first = 0;
	n_nodes = R;
	for(int r = 0; r < R; ++r) {
		nid = r;
		global_config.lps = L;
		global_config.n_threads = T;
		lp_global_init();
		uint64_t first = lid_node_first, cnt = n_lps_node;
		unsigned thr = global_config.n_threads;
		if(first != expect_first) {
			snprintf(more, sizeof more, "rank %d starts at %llu, previous rank ended at %llu", r,
			    (unsigned long long)first, (unsigned long long)expect_first);
			viol("rank ranges not contiguous", more);
		}
		expect_first = first + cnt;
		if(cnt >= T ? thr != T : thr != cnt) {
			snprintf(more, sizeof more, "rank %d hosts %llu LPs and runs %u threads", r, (unsigned long long)cnt, thr);
			viol("thread count not min(threads, LPs on rank)", more);
		}
		/* routing to rank */
		for(uint64_t l = first; l < first + cnt && l < L; ++l)
			if(lid_to_nid(l) != r) {
				snprintf(more, sizeof more, "LP %llu owned by rank %d but routed to rank %d", (unsigned long long)l, r,
				    (int)lid_to_nid(l));
				viol("lid_to_nid disagrees with rank ownership", more);
				break;
			}
		if(full) {
			uint64_t texp = first;
			for(unsigned t = 0; t < thr; ++t) {
				rid = t;
				lp_init();
				uint64_t tf = lid_thread_first, te = lid_thread_end;
				if(tf != texp) {
					snprintf(more, sizeof more, "rank %d thread %u starts at %llu, expected %llu", r, t,
					    (unsigned long long)tf, (unsigned long long)texp);
					viol("thread ranges not contiguous", more);
				}
				if(te <= tf && cnt >= thr) {
					snprintf(more, sizeof more, "rank %d thread %u owns no LP (rank has %llu LPs, %u threads)", r, t,
					    (unsigned long long)cnt, thr);
					viol("thread without work", more);
				}
				texp = te > tf ? te : tf;
				for(uint64_t l = tf; l < te; ++l)
					if(lid_to_rid(l) != t) {
						snprintf(more, sizeof more, "LP %llu owned by rank %d thread %u but routed to thread %u",
						    (unsigned long long)l, r, t, (unsigned)lid_to_rid(l));
						viol("lid_to_rid disagrees with thread ownership", more);
						break;
					}
				lp_fini();
			}
			if(texp != first + cnt) {
				snprintf(more, sizeof more, "rank %d: threads cover up to %llu, rank range ends at %llu", r,
				    (unsigned long long)texp, (unsigned long long)(first + cnt));
				viol("thread ranges do not cover the rank range", more);
			}
		}
		lp_global_fini();
	}
	if(expect_first != L) {
		snprintf(more, sizeof more, "ranks cover %llu of %llu LPs", (unsigned long long)expect_first, (unsigned long long)L);
		viol("rank ranges do not cover all LPs", more);
	}
	if(full)
		for(uint64_t l = 0; l < L && l < MAXL; ++l)
			if(init_cnt[l] != 1 || fini_cnt[l] != 1 || init_rank[l] != fini_rank[l] || init_thr[l] != fini_thr[l]) {
				snprintf(more, sizeof more, "LP %llu initialised %d times, finalised %d times", (unsigned long long)l,
				    init_cnt[l], fini_cnt[l]);
				viol("LP not initialised/finalised exactly once by one owner", more);
				break;
			}
	alarm(0);
}

int main(int argc, char **argv)
{
	uint64_t maxL = argc > 1 ? strtoull(argv[1], NULL, 0) : 96;
	int maxR = argc > 2 ? atoi(argv[2]) : 8;
	unsigned maxT = argc > 3 ? (unsigned)atoi(argv[3]) : 8;
	int big = argc > 4 ? atoi(argv[4]) : 0;
	signal(SIGALRM, on_alarm);
	sx_begin();
	for(int R = 1; R <= maxR; ++R)
		for(unsigned T = 1; T <= maxT; ++T)
			for(uint64_t L = (uint64_t)R; L <= maxL; ++L)
				check_triple(L, R, T, 1);
	sx_sample("full triple (LPs=%llu, ranks=%d, threads=%u): real lp_global_init per rank, lp_init/lp_fini per thread, routing of every LP",
	    (unsigned long long)maxL, maxR, maxT);
	if(big) {
		static const uint64_t bigL[] = {65533, 65534, 65535, 65536, 65537, 65538, 65539, 69997, 70001, 7919, 32749, 4099};
		for(unsigned i = 0; i < sizeof bigL / sizeof *bigL; ++i)
			for(int R = 1; R <= maxR; ++R)
				check_triple(bigL[i], R, 1, 0);
		sx_sample("rank-level only (LPs=65537, ranks=1..%d): lp_global_init + lid_to_nid of every LP", maxR);
		/* thread level on large ranks: 16- and 32-bit boundaries of the routing arithmetic, primes, non-divisible counts */
		static const uint64_t hugeL[] = {65535, 65536, 65537, 92819, 99991, 120000, 131071, 131072, 131073, 200000, 250000, 262143, 262144,
		    262145, 524287, 524289, 1000003, 1048575, 1048576, 1048577, 1299709, 2000003};
		static const unsigned hugeT[] = {1, 2, 3, 4, 5, 6, 7, 8, 12, 16, 17};
		for(unsigned i = 0; i < sizeof hugeL / sizeof *hugeL; ++i)
			for(unsigned j = 0; j < sizeof hugeT / sizeof *hugeT; ++j)
				for(int R = 1; R <= 2; ++R)
					check_triple(hugeL[i], R, hugeT[j], 1);
		sx_sample("full triple on large ranks (LPs=1048577, ranks=2, threads=17): routing of every LP");
	}
	char extra[200];
	snprintf(extra, sizeof extra, "\"max_lps\": %llu, \"max_ranks\": %d, \"max_threads\": %u, \"big\": %d", (unsigned long long)maxL,
	    maxR, maxT, big);
	return sx_report("s_part", 1, extra);
}
